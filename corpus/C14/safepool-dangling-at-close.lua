-- C14 finding 4 (variant without any quota): with -tags safepool (UnsafePool) the
-- pool keeps raw uintptrs to marked values.  Runtime.Close runs in rounds (one per
-- context; the golua CLI pushes one context): the first round's
-- ExtractAllMarkedFinalize removes the Go finalizer of every value but keeps the
-- entries; a userdata that has both a __gc (Finalize) and a ReleaseResources
-- (Release, e.g. files) is dereferenced again by ExtractAllMarkedRelease in the
-- last round.  If a garbage collection happens in between (here: triggered by a
-- finalizer of the second round), the pool touches freed memory: Go fatal error.
-- The default pool (ClonePool) holds clones and exits normally.
local fs = {}
for i = 1, 30 do
  local f = io.tmpfile()
  f:write("data", i)
  debug.setmetatable(f, {__gc = function(o) print("gc file", i) end,
                         __index = getmetatable(f).__index, __name = "FILE*"})
  fs[i] = f
end
fs = nil
-- marked last => finalized first in round one; it marks a new value, which is
-- finalized in round two of Close
setmetatable({}, {__gc = function()
  setmetatable({}, {__gc = function()
    collectgarbage() collectgarbage()
    local junk = {}
    for i = 1, 200000 do junk[i] = {i} end
    collectgarbage()
    print("second round finalizer done")
  end})
end})
print("end of script")

//go:build verif

package main

import (
	"flag"
	"fmt"
	"os"
	"strconv"

	"vsim/core"
	"vsim/engines"
)

func main() {
	if len(os.Args) < 2 {
		fmt.Fprintln(os.Stderr, "usage: vsim worker | check -prop ID -tier quick|thorough -bindir DIR -out DIR | replay -bindir DIR FILE")
		os.Exit(2)
	}
	switch os.Args[1] {
	case "worker":
		core.WorkerMain()
	case "check":
		fs := flag.NewFlagSet("check", flag.ExitOnError)
		prop := fs.String("prop", "", "property id")
		tier := fs.String("tier", "quick", "quick|thorough")
		bindir := fs.String("bindir", "", "directory of worker binaries")
		out := fs.String("out", "/verif", "verif directory")
		fs.Parse(os.Args[2:])
		spec := engines.Spec(*prop, *tier)
		if spec == nil {
			fmt.Fprintf(os.Stderr, "vsim: no check for property %q\n", *prop)
			os.Exit(2)
		}
		spec.Tier = *tier
		spec.BinDir = *bindir
		spec.OutDir = *out
		spec.Seed = 1
		if s := os.Getenv("VERIF_SEED"); s != "" {
			if v, err := strconv.ParseUint(s, 10, 64); err == nil {
				spec.Seed = v
			}
		}
		fmt.Printf("VERIF_SEED=%d property=%s tier=%s\n", spec.Seed, *prop, *tier)
		os.Exit(core.RunCheck(spec))
	case "replay":
		fs := flag.NewFlagSet("replay", flag.ExitOnError)
		bindir := fs.String("bindir", "", "directory of worker binaries")
		tier := fs.String("tier", "quick", "tier")
		fs.Parse(os.Args[2:])
		if fs.NArg() != 1 {
			fmt.Fprintln(os.Stderr, "usage: vsim replay -bindir DIR FILE")
			os.Exit(2)
		}
		os.Exit(core.ReplayFromFile(*bindir, fs.Arg(0), *tier))
	default:
		fmt.Fprintln(os.Stderr, "unknown command", os.Args[1])
		os.Exit(2)
	}
}

#!/bin/bash
# Determinism self-test (DESIGN §6/§15): the same run ranges of every engine are executed in several fresh
# processes at GOMAXPROCS 1, 4 and 16; per-run (log hash, shape hash, verdict) lines must be identical.
# usage: sim/selftest.sh [runs-per-engine] [processes-per-setting]
set -u
export GOFLAGS=-mod=mod GOPROXY=off GOSUMDB=off GOTOOLCHAIN=local
N=${1:-150}; P=${2:-4}
HERE="$(cd "$(dirname "$0")" && pwd)"
BIN=$(mktemp -d /var/tmp/vsim-self.XXXXXX); trap 'rm -rf "$BIN"' EXIT
(cd "$HERE" && go build -tags verif -ldflags=-checklinkname=0 -o "$BIN/vsim" ./cmd/vsim) || exit 2
rc=0
for EM in corofree:std model:coro model:close model:err quota:cpu quota:mem quotaadv:cpu quotaadv:mem ctx: ctxlua: table: conf:conf conf:snap iso: iso:fresh gc: flags: crash:src crash:lib crash:lib-amp; do
  E=${EM%%:*}; M=${EM#*:}
  n=$N; [ "$E" = gc ] && n=$((N/5)); [ "$E" = iso ] && n=$((N/2))
  i=0
  for G in 1 4 16; do for k in $(seq $P); do
    i=$((i+1))
    echo "{\"op\":\"search\",\"engine\":\"$E\",\"mode\":\"$M\",\"seed\":7,\"from\":0,\"to\":$n,\"stride\":1}" | VSIM_SELFTEST=1 GOMAXPROCS=$G timeout 900 "$BIN/vsim" worker 2>/dev/null | grep "^H " > "$BIN/$E-$M-$i.txt" &
  done; done; wait
  ref="$BIN/$E-$M-1.txt"; bad=0; lines=$(wc -l < "$ref")
  for f in "$BIN/$E-$M"-*.txt; do cmp -s "$ref" "$f" || bad=$((bad+1)); done
  if [ "$E" = flags ] || [ "$E" = table ]; then note=" (shape hash includes nothing process-dependent)"; else note=""; fi
  echo "$E/$M: $lines runs x $i processes (GOMAXPROCS 1,4,16): $bad differing$note"
  [ $bad -ne 0 ] && rc=1
done
exit $rc

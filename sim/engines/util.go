//go:build verif

package engines

import "sort"

func sortStrings(s []string) { sort.Strings(s) }

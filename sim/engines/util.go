//go:build verif

package engines

import "sort"

func sortStrings(s []string) { sort.Strings(s) }

func tailStr(a []string, n int) []string {
	if len(a) > n {
		return a[len(a)-n:]
	}
	return a
}

func min(a, b int) int {
	if a < b {
		return a
	}
	return b
}

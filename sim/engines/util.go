//go:build verif

package engines

import (
	"sort"
	"syscall"
	"time"
)

func sortStrings(s []string) { sort.Strings(s) }

func tailStr(a []string, n int) []string {
	if len(a) > n {
		return a[len(a)-n:]
	}
	return a
}

func min(a, b int) int {
	if a < b {
		return a
	}
	return b
}

// procCPU returns the CPU time (user + system) the worker process has used so far.  The time limits
// of the K6 oracles are measured with it rather than with the wall clock, which a loaded machine
// stretches at will.
func procCPU() time.Duration {
	var ru syscall.Rusage
	if err := syscall.Getrusage(syscall.RUSAGE_SELF, &ru); err != nil {
		return 0
	}
	return time.Duration(ru.Utime.Nano() + ru.Stime.Nano())
}

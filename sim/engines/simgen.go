//go:build verif

package engines

import (
	"fmt"

	"vsim/core"
)

// Generator of SimLua programs (G-model).  It only produces programs whose
// behaviour the manual fixes: no dependence on pairs order, addresses, closure
// identity.  Functions only call functions with a higher index, so every
// program terminates.

type simOpts struct {
	mode         string // coro | close | err
	xpcall       bool   // use xpcall (then no coroutines unless mixed)
	coro         bool
	mixed        bool // allow xpcall together with coroutines (hits the open finding MSGH)
	nonclos      bool // allow the "non-closable value" runtime error (open finding about its missing position)
	closeRun     bool // allow handlers that call functions
	big          bool // thorough tier: wider size ranges
	hookErr      bool // allow an error raised by a debug call hook (open finding: golua discards it)
	closeStorm   bool // directed shape: coroutine closed while suspended in its body or inside a handler
	hostBoundary bool // main chunk not wrapped in pcall: errors reach the embedding caller (open finding HOST)
}

type simGen struct {
	t      *core.Tape
	o      simOpts
	nfun   int
	nco    int
	uid    int
	budget int
	probeN int64
	// per function being generated
	fidx       int
	inLoop     int
	labels     []string // end-of-block labels of the enclosing blocks (innermost last) in the current function
	locals     []string
	isCoro     map[int]bool // function indexes used as coroutine bodies
	vararg     bool
	nparams    int
	stormLeft  int
	blockLabel []string        // label of each enclosing block ("" if none), innermost last
	labelUsed  map[string]bool // a goto to this label has been generated
}

func (g *simGen) id() int { g.uid++; return g.uid }

func cst(v mval) *expr { return &expr{k: eConst, v: v} }

func (g *simGen) constVal() mval {
	switch g.t.Weighted(4, 2, 1, 1, 1) {
	case 0:
		return intv(int64(g.t.Choose(9)))
	case 1:
		return strv(fmt.Sprintf("s%d", g.t.Choose(4)))
	case 2:
		return mval{}
	case 3:
		return boolv(true)
	default:
		return boolv(false)
	}
}

// simple expression: single value, cannot raise (except probe wrappers)
func (g *simGen) simple() *expr {
	w := []int{5, 2, 2, 1, 1}
	if len(g.locals) == 0 {
		w[1] = 0
	}
	if g.nparams == 0 {
		w[3] = 0
	}
	switch g.t.Weighted(w...) {
	case 0:
		return cst(g.constVal())
	case 1:
		return &expr{k: eLocal, name: g.locals[g.t.Choose(len(g.locals))]}
	case 2:
		return &expr{k: eNewTbl, n: int64(100 + g.t.Choose(20))}
	case 3:
		return &expr{k: eLocal, name: []string{"a", "b"}[g.t.Choose(g.nparams)]}
	default:
		g.probeN++
		return &expr{k: eProbeVal, n: g.probeN, args: []*expr{cst(g.constVal())}}
	}
}

func (g *simGen) args() []*expr {
	n := g.t.Weighted(3, 4, 2, 1)
	var out []*expr
	for i := 0; i < n; i++ {
		out = append(out, g.simple())
	}
	if g.vararg && g.t.Chance(1, 4) {
		out = append(out, &expr{k: eVararg})
	}
	return out
}

func (g *simGen) fnRef(minIdx int) *expr {
	// a function with index > minIdx, or nil if none
	if minIdx >= g.nfun {
		return nil
	}
	k := minIdx + 1 + g.t.Choose(g.nfun-minIdx)
	return &expr{k: eFnRef, name: fmt.Sprintf("F%d", k)}
}

func (g *simGen) coRef() *expr {
	return &expr{k: eGlobal, name: fmt.Sprintf("C%d", 1+g.t.Choose(g.nco))}
}
func (g *simGen) wrRef() *expr {
	return &expr{k: eGlobal, name: fmt.Sprintf("W%d", 1+g.t.Choose(g.nco))}
}

// callExpr builds a multi-valued call expression of some kind.
func (g *simGen) callExpr() *expr {
	w := []int{4, 4, 0, 0, 0, 0, 0, 0, 0, 0}
	if g.o.xpcall {
		w[2] = 3
	}
	if g.o.coro {
		w[3], w[4], w[6], w[7], w[8] = 6, 3, 2, 2, 1
		if g.isCoro[g.fidx] {
			w[5] = 6
		} else {
			w[5] = 1 // yield outside a coroutine body: legal only if called from one; from main it is an error
		}
		if g.o.mode != "coro" {
			w[3], w[4], w[5], w[6], w[7], w[8] = 3, 1, 2, 1, 1, 0
			if !g.isCoro[g.fidx] {
				w[5] = 0
			}
			if g.o.closeRun {
				// handlers that yield (they call these functions) and coroutines closed while suspended
				// inside one
				w[7] = 2
				if !g.isCoro[g.fidx] {
					w[5] = 1
				}
			}
		}
	}
	f := g.fnRef(g.fidx)
	if f == nil {
		w[0], w[1], w[2] = 0, 0, 0
		w[9] = 1
	}
	switch g.t.Weighted(w...) {
	case 0:
		return &expr{k: eCall, fn: f, args: g.args()}
	case 1:
		return &expr{k: eBuiltin, name: "pcall", args: append([]*expr{f}, g.args()...)}
	case 2:
		return &expr{k: eBuiltin, name: "xpcall", args: append([]*expr{f, {k: eFnRef, name: "H1"}}, g.args()...)}
	case 3:
		return &expr{k: eBuiltin, name: "coroutine.resume", args: append([]*expr{g.coRef()}, g.args()...)}
	case 4:
		return &expr{k: eBuiltin, name: "pcall", args: append([]*expr{g.wrRef()}, g.args()...)}
	case 5:
		return &expr{k: eBuiltin, name: "coroutine.yield", args: g.args()}
	case 6:
		return &expr{k: eBuiltin, name: "coroutine.status", args: []*expr{g.coRef()}}
	case 7:
		return &expr{k: eBuiltin, name: "pcall", args: []*expr{{k: eFnRef, name: "coroutine.close"}, g.coRef()}}
	case 8:
		if g.t.Chance(1, 2) {
			return &expr{k: eBuiltin, name: "ismain"}
		}
		return &expr{k: eBuiltin, name: "coroutine.isyieldable"}
	default:
		return &expr{k: eBuiltin, name: "select#", args: g.args()}
	}
}

func (g *simGen) emitStmt() *stmt {
	s := &stmt{k: sEmit, tag: fmt.Sprintf("e%d", g.id())}
	n := g.t.Choose(3)
	for i := 0; i < n; i++ {
		s.exps = append(s.exps, g.simple())
	}
	if g.t.Chance(2, 3) {
		s.exps = append(s.exps, g.callExpr())
	}
	return s
}

func (g *simGen) errVal() *expr {
	switch g.t.Weighted(4, 2, 1, 1, 1, 1) {
	case 0:
		return cst(strv(fmt.Sprintf("m%d", g.id())))
	case 1:
		return &expr{k: eNewTbl, n: int64(200 + g.t.Choose(20))}
	case 2:
		return cst(intv(int64(g.t.Choose(50))))
	case 3:
		return cst(mval{})
	case 4:
		return cst(boolv(g.t.Chance(1, 2)))
	default:
		return &expr{k: eFnRef, name: "H1"}
	}
}

func (g *simGen) block(n int, label bool) []*stmt { return g.blockTail(n, label, nil) }

// blockTail generates a block; tail (if any) is placed after the generated
// statements and before the end-of-block label.
func (g *simGen) blockTail(n int, label bool, tail func() []*stmt) []*stmt {
	savedLocals := len(g.locals)
	var lbl string
	if label {
		lbl = fmt.Sprintf("L%d", g.id())
		g.labels = append(g.labels, lbl)
	}
	g.blockLabel = append(g.blockLabel, lbl)
	var out []*stmt
	for i := 0; i < n; i++ {
		out = append(out, g.stmts()...)
	}
	if tail != nil {
		out = append(out, tail()...)
	}
	g.blockLabel = g.blockLabel[:len(g.blockLabel)-1]
	if label {
		g.labels = g.labels[:len(g.labels)-1]
		out = append(out, &stmt{k: sLabel, name: lbl})
	}
	g.locals = g.locals[:savedLocals]
	return out
}

func (g *simGen) stmts() []*stmt {
	g.budget--
	if g.budget < 0 {
		return []*stmt{g.emitStmt()}
	}
	// weights: emit, probe, local, tbc, do, if, for, while, break, goto, return, callstmt, error, rterr, assignG
	w := []int{8, 4, 2, 3, 2, 2, 2, 1, 0, 0, 1, 2, 1, 1, 1, 0}
	if len(g.labels) < 3 && !(len(g.blockLabel) > 0 && g.blockLabel[len(g.blockLabel)-1] != "" && g.labelUsed[g.blockLabel[len(g.blockLabel)-1]]) {
		w[15] = 1
		if g.o.mode == "close" {
			w[15] = 3
		}
	}
	switch g.o.mode {
	case "close":
		w[3], w[4], w[6], w[10], w[12] = 8, 4, 3, 2, 2
	case "err":
		w[12], w[13], w[1], w[11] = 4, 2, 6, 4
	case "coro":
		w[0], w[11] = 10, 4
	}
	if g.inLoop > 0 {
		w[8] = 2
	}
	if len(g.labels) > 0 {
		w[9] = 2
	}
	if len(g.labels) >= 4 {
		w[4], w[5], w[6], w[7] = 0, 0, 0, 0
	}
	// no local declaration between a goto and its label at the end of the same block
	if n := len(g.blockLabel); n > 0 && g.blockLabel[n-1] != "" && g.labelUsed[g.blockLabel[n-1]] {
		w[2], w[3] = 0, 0
	}
	switch g.t.Weighted(w...) {
	case 0:
		return []*stmt{g.emitStmt()}
	case 1:
		g.probeN++
		return []*stmt{{k: sProbe, n: g.probeN}}
	case 2:
		name := fmt.Sprintf("l%d", g.id())
		var e *expr
		if g.t.Chance(1, 2) {
			e = g.callExpr()
		} else {
			e = g.simple()
		}
		s := &stmt{k: sLocal, name: name, exps: []*expr{e}}
		g.locals = append(g.locals, name)
		return []*stmt{s}
	case 3:
		name := fmt.Sprintf("x%d", g.id())
		var e *expr
		switch g.t.Weighted(12, 1, 1, 1) {
		case 0:
			mode, arg := 0, 0
			wm := []int{8, 2, 1}
			if g.o.closeRun && g.o.coro {
				wm[2] = 4
			}
			switch g.t.Weighted(wm...) {
			case 1:
				mode = 1
			case 2:
				if (g.o.closeRun || g.o.coro) && g.fidx < g.nfun {
					mode = 2
					arg = g.fidx + 1 + g.t.Choose(g.nfun-g.fidx)
				}
			}
			e = &expr{k: eMkc, n: int64(g.id()), args: []*expr{cst(intv(int64(mode))), cst(intv(int64(arg)))}}
		case 1:
			e = cst(mval{})
		case 2:
			e = cst(boolv(false))
		default:
			if g.o.nonclos {
				e = cst(intv(42))
			} else {
				e = cst(mval{})
			}
		}
		out := []*stmt{{k: sLocalClose, name: name, exps: []*expr{e}}}
		if e.k == eMkc && g.o.closeRun && !g.o.xpcall && g.t.Chance(1, 10) {
			out = append(out, &stmt{k: sStrip, name: name})
		}
		return out
	case 4:
		return []*stmt{{k: sDo, body: g.block(1+g.t.Choose(3), g.t.Chance(1, 2))}}
	case 5:
		s := &stmt{k: sIf, exps: []*expr{g.simple()}, body: g.block(1+g.t.Choose(2), false)}
		if g.t.Chance(1, 2) {
			s.els = g.block(1+g.t.Choose(2), false)
		}
		return []*stmt{s}
	case 6:
		g.inLoop++
		name := fmt.Sprintf("i%d", g.id())
		s := &stmt{k: sFor, name: name, n: int64(1 + g.t.Choose(3)), body: g.block(1+g.t.Choose(3), g.t.Chance(2, 3))}
		g.inLoop--
		if g.t.Chance(1, 3) {
			// generic for with a closing value
			s.k = sForIn
			cv := cst(mval{})
			if g.t.Chance(4, 5) {
				mode := g.t.Weighted(8, 2)
				cv = &expr{k: eMkc, n: int64(g.id()), args: []*expr{cst(intv(int64(mode))), cst(intv(0))}}
			}
			s.exps = []*expr{cv}
		}
		return []*stmt{s}
	case 7:
		g.inLoop++
		name := fmt.Sprintf("K%d", g.id())
		init := &stmt{k: sAssignG, name: name, exps: []*expr{cst(intv(0))}}
		s := &stmt{k: sWhile, name: name, n: int64(1 + g.t.Choose(3)), body: g.block(1+g.t.Choose(2), g.t.Chance(1, 2))}
		g.inLoop--
		return []*stmt{init, s}
	case 8:
		return []*stmt{{k: sBreak}}
	case 9:
		l := g.labels[len(g.labels)-1-g.t.Choose(len(g.labels))]
		g.labelUsed[l] = true
		return []*stmt{{k: sGoto, name: l}}
	case 10:
		s := &stmt{k: sReturn}
		switch g.t.Weighted(2, 3, 2) {
		case 1:
			s.exps = g.args()
			if len(s.exps) == 1 && s.exps[0].k == eProbeVal {
				// `return probe(...)` would be a tail call of a host function: the position
				// golua attaches to its error is then the caller's, which nothing specifies
				s.exps = append(s.exps, cst(intv(1)))
			}
		case 2:
			if f := g.fnRef(g.fidx); f != nil {
				s.exps = []*expr{{k: eCall, fn: f, args: g.args()}} // tail call unless a close is pending
			}
		}
		return []*stmt{s}
	case 11:
		return []*stmt{{k: sCallStmt, exps: []*expr{g.callExprNoSelect()}}}
	case 12:
		lvl := []int{1, 1, 1, 0, 2, 2}[g.t.Choose(6)]
		return []*stmt{{k: sError, exps: []*expr{g.errVal()}, level: lvl}}
	case 13:
		k := int64(g.t.Choose(19))
		if k == 18 && !g.o.hookErr {
			k = 4 // errors raised in call hooks are an open finding (golua drops them): kept to few runs
		}
		return []*stmt{{k: sRtErr, n: k}}
	case 15:
		// K = 0; [local x <close> = mkc()]; ::top::; K = K + 1; do body end; if K < n then goto top end
		// (nothing is declared in this block between the label and the goto)
		kname := fmt.Sprintf("K%d", g.id())
		lbl := fmt.Sprintf("T%d", g.id())
		out := []*stmt{{k: sAssignG, name: kname, exps: []*expr{cst(intv(0))}}}
		if g.t.Chance(2, 3) {
			out = append(out, &stmt{k: sLocalClose, name: fmt.Sprintf("x%d", g.id()), exps: []*expr{{k: eMkc, n: int64(g.id()), args: []*expr{cst(intv(0)), cst(intv(0))}}}})
		}
		out = append(out, &stmt{k: sLabel, name: lbl})
		out = append(out, &stmt{k: sAssignG, name: kname, exps: []*expr{{k: eAdd, args: []*expr{{k: eGlobal, name: kname}, cst(intv(1))}}}})
		out = append(out, &stmt{k: sDo, body: g.block(1+g.t.Choose(2), false)})
		out = append(out, &stmt{k: sIf, exps: []*expr{{k: eLt, args: []*expr{{k: eGlobal, name: kname}, cst(intv(int64(2 + g.t.Choose(2))))}}}, body: []*stmt{{k: sGoto, name: lbl}}})
		return out
	case 14:
		if g.o.mode == "err" && g.stormLeft > 0 && g.t.Chance(1, 3) {
			g.stormLeft--
			return []*stmt{{k: sStorm, n: int64(600 + g.t.Choose(700))}}
		}
		name := fmt.Sprintf("G%d", 1+g.t.Choose(3))
		return []*stmt{{k: sAssignG, name: name, exps: []*expr{g.simple()}}}
	default:
		name := fmt.Sprintf("G%d", 1+g.t.Choose(3))
		return []*stmt{{k: sAssignG, name: name, exps: []*expr{g.simple()}}}
	}
}

func (g *simGen) callExprNoSelect() *expr {
	for i := 0; i < 8; i++ {
		e := g.callExpr()
		if e.k == eBuiltin && (e.name == "select#" || e.name == "ismain" || e.name == "coroutine.isyieldable" || e.name == "coroutine.status") {
			continue
		}
		return e
	}
	return &expr{k: eBuiltin, name: "pcall", args: []*expr{{k: eFnRef, name: "H1"}, g.simple()}}
}

// genCloseStorm builds the directed shape behind "coroutine.close of a suspended coroutine": a
// coroutine body with to-be-closed values at several depths whose handlers may yield (they call the
// yielding function FY) or raise, leaving by return, error or by being closed while suspended - in the
// body or inside a handler, including a handler run because the body died of an error - and a main
// chunk that resumes, closes and inspects the coroutine in a generated order.
func genCloseStorm(t *core.Tape, o simOpts) *program {
	g := &simGen{t: t, o: o, isCoro: map[int]bool{1: true, 2: true}, labelUsed: map[string]bool{}}
	g.nfun, g.nco = 2, 1
	p := &program{}
	p.funcs = append(p.funcs, &funcDef{name: "H1", params: []string{"a"}, body: []*stmt{
		{k: sEmit, tag: "handler", exps: []*expr{{k: eLocal, name: "a"}}},
		{k: sReturn, exps: []*expr{{k: eLocal, name: "a"}, cst(intv(7))}},
	}})
	yield := func(k int) *stmt {
		return &stmt{k: sEmit, tag: "resumed", exps: []*expr{{k: eBuiltin, name: "coroutine.yield", args: []*expr{cst(intv(int64(k)))}}}}
	}
	mkc := func() *stmt {
		mode, arg := 0, 0
		switch t.Weighted(3, 2, 5) {
		case 1:
			mode = 1
		case 2:
			mode, arg = 2, 2
		}
		id := g.id()
		return &stmt{k: sLocalClose, name: fmt.Sprintf("x%d", id), exps: []*expr{{k: eMkc, n: int64(id), args: []*expr{cst(intv(int64(mode))), cst(intv(int64(arg)))}}}}
	}
	var exit func() []*stmt
	exit = func() []*stmt {
		switch t.Weighted(3, 2, 2, 1) {
		case 0:
			return []*stmt{{k: sError, exps: []*expr{cst(strv(fmt.Sprintf("m%d", 500+g.id())))}, level: 1}}
		case 1:
			return []*stmt{yield(100 + g.id())}
		case 2:
			return []*stmt{{k: sReturn, exps: []*expr{cst(intv(int64(g.id())))}}}
		}
		return nil
	}
	var nest func(depth int) []*stmt
	nest = func(depth int) []*stmt {
		var out []*stmt
		for i, n := 0, 1+t.Choose(3); i < n; i++ {
			switch t.Weighted(5, 2, 1, 2) {
			case 0:
				out = append(out, mkc())
			case 1:
				out = append(out, &stmt{k: sEmit, tag: "step", exps: []*expr{cst(intv(int64(g.id())))}})
			case 2:
				out = append(out, yield(200+g.id()))
			case 3:
				if depth < 3 {
					inner := nest(depth + 1)
					if t.Chance(1, 3) {
						// a protected call in between: errors of the inner part are caught inside the coroutine
						name := fmt.Sprintf("P%d", g.id())
						p.funcs = append(p.funcs, &funcDef{name: name, body: inner})
						out = append(out, &stmt{k: sEmit, tag: "pc", exps: []*expr{{k: eBuiltin, name: "pcall", args: []*expr{{k: eFnRef, name: name}}}}})
					} else {
						out = append(out, &stmt{k: sDo, body: inner})
					}
				}
			}
		}
		if x := exit(); x != nil && (depth > 0 || t.Chance(3, 4)) {
			if len(x) == 1 && (x[0].k == sReturn || x[0].k == sError) {
				out = append(out, x...)
			} else {
				out = append(out, x...)
			}
		}
		return out
	}
	// F2: what yielding handlers call
	fy := &funcDef{name: "F2", body: []*stmt{{k: sEmit, tag: "in2"}, yield(1)}}
	if t.Chance(1, 4) {
		fy.body = append(fy.body, yield(2))
	}
	if t.Chance(1, 4) {
		fy.body = append(fy.body, &stmt{k: sError, exps: []*expr{cst(strv("m777"))}, level: 1})
	}
	body := []*stmt{{k: sEmit, tag: "in1"}}
	body = append(body, nest(0)...)
	p.funcs = append(p.funcs, &funcDef{name: "F1", body: body}, fy)
	fr := &expr{k: eFnRef, name: "F1"}
	p.main = append(p.main, &stmt{k: sAssignG, name: "C1", exps: []*expr{{k: eBuiltin, name: "coroutine.create", args: []*expr{fr}}}})
	p.main = append(p.main, &stmt{k: sAssignG, name: "W1", exps: []*expr{{k: eBuiltin, name: "coroutine.wrap", args: []*expr{fr}}}})
	c1 := &expr{k: eGlobal, name: "C1"}
	for i, n := 0, 2+t.Choose(7); i < n; i++ {
		switch t.Weighted(5, 3, 2) {
		case 0:
			p.main = append(p.main, &stmt{k: sEmit, tag: "res", exps: []*expr{{k: eBuiltin, name: "coroutine.resume", args: []*expr{c1, cst(intv(int64(i)))}}}})
		case 1:
			p.main = append(p.main, &stmt{k: sEmit, tag: "cl", exps: []*expr{{k: eBuiltin, name: "pcall", args: []*expr{{k: eFnRef, name: "coroutine.close"}, c1}}}})
		default:
			p.main = append(p.main, &stmt{k: sEmit, tag: "st", exps: []*expr{{k: eBuiltin, name: "coroutine.status", args: []*expr{c1}}}})
		}
	}
	p.main = append(p.main, &stmt{k: sEmit, tag: "end"})
	return p
}

func genSim(t *core.Tape, o simOpts) *program {
	if o.closeStorm {
		return genCloseStorm(t, o)
	}
	g := &simGen{t: t, o: o, isCoro: map[int]bool{}, labelUsed: map[string]bool{}, stormLeft: 2}
	g.nfun = 2 + t.Choose(4)
	if o.coro {
		g.nco = 1 + t.Choose(3)
	}
	g.budget = 10 + t.Choose(40)
	if o.big {
		// thorough tier: larger programs as well as more of them
		g.nfun = 2 + t.Choose(7)
		g.budget = 10 + t.Choose(140)
		if o.coro {
			g.nco = 1 + t.Choose(5)
		}
	}
	p := &program{}
	// which functions serve as coroutine bodies
	cobody := make([]int, g.nco)
	for i := range cobody {
		cobody[i] = 1 + t.Choose(g.nfun)
		g.isCoro[cobody[i]] = true
	}
	// message handler
	p.funcs = append(p.funcs, &funcDef{name: "H1", params: []string{"a"}, body: []*stmt{
		{k: sEmit, tag: "handler", exps: []*expr{{k: eLocal, name: "a"}}},
		{k: sReturn, exps: []*expr{{k: eLocal, name: "a"}, cst(intv(7))}},
	}})
	switch t.Choose(6) {
	case 0, 1:
		// handler that replaces the value
		p.funcs[0].body[1] = &stmt{k: sReturn, exps: []*expr{cst(strv("replaced"))}}
	case 2:
		// ... with a multi-valued tail after the replacement: only the first value counts
		p.funcs[0].body[1] = &stmt{k: sReturn, exps: []*expr{cst(strv("replaced")), {k: eBuiltin, name: "select#", args: []*expr{{k: eLocal, name: "a"}, cst(intv(5))}}}}
	}
	for i := 1; i <= g.nfun; i++ {
		g.fidx = i
		g.labels = nil
		g.blockLabel = nil
		g.locals = nil
		g.inLoop = 0
		g.nparams = g.t.Choose(3)
		g.vararg = g.t.Chance(1, 3)
		f := &funcDef{name: fmt.Sprintf("F%d", i), vararg: g.vararg}
		f.params = []string{"a", "b"}[:g.nparams]
		f.body = append(f.body, &stmt{k: sEmit, tag: fmt.Sprintf("in%d", i), exps: paramRefs(g.nparams, g.vararg)})
		f.body = append(f.body, g.blockTail(1+t.Choose(4), t.Chance(1, 3), func() []*stmt {
			if t.Chance(1, 2) {
				a := g.args()
				if len(a) == 1 && a[0].k == eProbeVal {
					a = append(a, cst(intv(1)))
				}
				return []*stmt{{k: sReturn, exps: a}}
			}
			return nil
		})...)
		p.funcs = append(p.funcs, f)
	}
	g.fidx = 0
	g.labels, g.blockLabel, g.locals, g.inLoop, g.nparams, g.vararg = nil, nil, nil, 0, 0, false
	for i := 1; i <= g.nco; i++ {
		fr := &expr{k: eFnRef, name: fmt.Sprintf("F%d", cobody[i-1])}
		p.main = append(p.main, &stmt{k: sAssignG, name: fmt.Sprintf("C%d", i), exps: []*expr{{k: eBuiltin, name: "coroutine.create", args: []*expr{fr}}}})
		p.main = append(p.main, &stmt{k: sAssignG, name: fmt.Sprintf("W%d", i), exps: []*expr{{k: eBuiltin, name: "coroutine.wrap", args: []*expr{fr}}}})
	}
	if g.budget < 6 {
		g.budget = 6
	}
	body := g.block(3+t.Choose(6), false)
	if o.hostBoundary {
		// errors of the main chunk reach the embedding caller directly
		p.main = append(p.main, body...)
	} else {
		p.funcs = append(p.funcs, &funcDef{name: "M0", body: body})
		p.main = append(p.main, &stmt{k: sEmit, tag: "main", exps: []*expr{{k: eBuiltin, name: "pcall", args: []*expr{{k: eFnRef, name: "M0"}}}}})
	}
	p.main = append(p.main, &stmt{k: sEmit, tag: "end"})
	return p
}

func paramRefs(n int, vararg bool) []*expr {
	var out []*expr
	for i := 0; i < n; i++ {
		out = append(out, &expr{k: eLocal, name: []string{"a", "b"}[i]})
	}
	if vararg {
		out = append(out, &expr{k: eVararg})
	}
	return out
}

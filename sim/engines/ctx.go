//go:build verif && !noquotas

package engines

import (
	"fmt"
	"math/big"
	"strings"

	rt "github.com/arnodel/golua/runtime"

	"vsim/core"
)

// E-CTX (DESIGN §4 C07, appendix C): histories of push / pop / require /
// release / stop / clock-advance on the context stack through the Go API,
// checked after every operation against an independent reference model with
// exact arithmetic, written from the property statement.

func init() {
	core.Register(&core.Engine{Name: "ctx", Run: runCtx})
}

var inf = new(big.Int).Lsh(big.NewInt(1), 200) // "no limit"

func lim(v uint64) *big.Int {
	if v == 0 {
		return inf
	}
	return new(big.Int).SetUint64(v)
}

func bmin(a, b *big.Int) *big.Int {
	if a.Cmp(b) <= 0 {
		return a
	}
	return b
}

type mframe struct {
	hard, soft [3]*big.Int // cpu, mem, ms
	used       [3]*big.Int
	held       *big.Int // memory this frame itself required and not yet released
	flags      rt.ComplianceFlags
	status     rt.RuntimeContextStatus
	softStop   bool
	startMs    uint64
	// tracked tells for cpu and memory whether a limit of that kind - hard or soft, the frame's own or
	// inherited - is in force (a time limit counts for cpu: the clock is sampled while charging cpu).
	// Only then does the frame keep count: used of an unlimited resource is not specified.
	tracked [2]bool
	// cpu charged successfully since the frame's time ran out (the clock is only looked at every 10000
	// ticks of cpu: the kill may be that late, not later)
	cpuAfterExpiry uint64
}

func resArr(r rt.RuntimeResources) [3]uint64 { return [3]uint64{r.Cpu, r.Memory, r.Millis} }

var resNames = [3]string{"cpu", "memory", "millis"}

func amountPool(g *core.Tape, rem *big.Int) uint64 {
	// amounts: 0, 1, 2, small, b-1, b, b+1 for the remaining budget b, large, near 2^64
	var b uint64
	if rem.IsUint64() {
		b = rem.Uint64()
	} else {
		b = 1000
	}
	c := []uint64{0, 1, 2, 7, 100, b / 2, b - 2, b - 1, b, b + 1, 10000, 1 << 32, 1<<63 - 1, 1 << 63, ^uint64(0) - 1, ^uint64(0), ^uint64(0) - b + 3}
	return c[g.Weighted(1, 6, 2, 6, 4, 4, 3, 4, 4, 3, 2, 1, 1, 1, 1, 1, 2)]
}

func limitPool(g *core.Tape, rem *big.Int) uint64 {
	var b uint64 = 5000
	if rem.IsUint64() {
		b = rem.Uint64()
	}
	c := []uint64{0, 1, 2, 50, 1000, b / 2, b - 1, b, b + 1, 2 * b, 1 << 40, 1<<63 - 1, ^uint64(0)}
	return c[g.Weighted(5, 1, 1, 3, 4, 4, 2, 2, 2, 2, 1, 1, 1)]
}

func runCtx(ctx *core.RunCtx) {
	g := ctx.Gen
	clock := &core.Clock{}
	clock.Advance(1_700_000_000_000 + uint64(g.Choose(1000)))
	core.InstallClock(clock)
	defer core.InstallClock(nil)
	r := rt.New(nil)
	defer func() {
		// unwind whatever is left so that the runtime can be collected
		for i := 0; i < 40; i++ {
			func() {
				defer func() { recover() }()
				r.PopContext()
			}()
		}
	}()
	var hist []string
	var stack []*mframe // model; stack[0] is the outermost frame pushed by the driver
	nops := 8 + g.Choose(50)
	if ctx.Tier == "thorough" {
		nops = 8 + g.Choose(90)
	}
	fail := func(rule, sig, format string, args ...interface{}) {
		ctx.Sample = strings.Join(hist, "\n")
		ctx.Fail("C07", rule, sig, format+"\n  history:\n    "+strings.Join(hist, "\n    "), args...)
	}
	// do runs f and reports a termination panic
	do := func(f func()) (term bool, other interface{}) {
		defer func() {
			if x := recover(); x != nil {
				if _, ok := x.(rt.ContextTerminationError); ok {
					term = true
				} else {
					other = x
				}
			}
		}()
		f()
		return
	}
	cur := func() *mframe {
		if len(stack) == 0 {
			return nil
		}
		return stack[len(stack)-1]
	}
	elapsed := func(f *mframe) *big.Int { return new(big.Int).SetUint64(clock.Now() - f.startMs) }
	// compare implementation state of the running context with the model
	check := func(op string) bool {
		f := cur()
		if f == nil {
			return true
		}
		c := r.RuntimeContext()
		u := resArr(c.UsedResources())
		h := resArr(c.HardLimits())
		for x := 0; x < 2; x++ {
			if f.tracked[x] && new(big.Int).SetUint64(u[x]).Cmp(f.used[x]) != 0 {
				fail("C07.I4", "used-mismatch:"+resNames[x], "after %s: context reports used.%s=%d, the ledger says %s", op, resNames[x], u[x], f.used[x])
				return false
			}
			if f.hard[x].Cmp(inf) != 0 && new(big.Int).SetUint64(u[x]).Cmp(f.hard[x]) >= 0 {
				fail("C07.I5", "used-reaches-kill:"+resNames[x], "after %s: used.%s=%d is not below kill.%s=%d", op, resNames[x], u[x], resNames[x], h[x])
				return false
			}
		}
		if c.Status() != f.status {
			fail("C07.I5", "status", "after %s: status is %v, expected %v", op, c.Status(), f.status)
			return false
		}
		if c.RequiredFlags() != f.flags {
			fail("C07.I3", "flags", "after %s: flags %v, expected %v", op, c.RequiredFlags().Names(), f.flags.Names())
			return false
		}
		if f.status == rt.StatusLive {
			due := f.softStop
			su := resArr(c.UsedResources()) // includes millis as the implementation last computed it
			for x := 0; x < 3; x++ {
				if f.soft[x].Cmp(inf) != 0 && new(big.Int).SetUint64(su[x]).Cmp(f.soft[x]) >= 0 {
					due = true
				}
			}
			if c.Due() != due {
				fail("C07.I6", "due", "after %s: Due()=%v, expected %v (used=%v soft=%v softStop=%v)", op, c.Due(), due, su, f.soft, f.softStop)
				return false
			}
		}
		return true
	}
	kills, pushes := 0, 0
	depthMax := 0
	for i := 0; i < nops && !ctx.Failed(); i++ {
		f := cur()
		dead := f != nil && f.status != rt.StatusLive
		// choose an operation
		var op int
		switch {
		case f == nil:
			op = 0
		case dead:
			op = 1
		default:
			op = g.Weighted(3, 2, 6, 5, 3, 1, 1, 2)
			if len(stack) >= 8 && op == 0 {
				op = 2
			}
		}
		switch op {
		case 0: // push
			var def rt.RuntimeContextDef
			parent := f
			rem := [3]*big.Int{inf, inf, inf}
			if parent != nil {
				for x := 0; x < 2; x++ {
					if parent.hard[x].Cmp(inf) != 0 {
						rem[x] = new(big.Int).Sub(parent.hard[x], parent.used[x])
					}
				}
				if parent.hard[2].Cmp(inf) != 0 {
					rem[2] = new(big.Int).Sub(parent.hard[2], elapsed(parent))
				}
			}
			def.HardLimits = rt.RuntimeResources{Cpu: limitPool(g, rem[0]), Memory: limitPool(g, rem[1])}
			if parent == nil {
				// the outermost frame usually has finite cpu and memory limits, so every frame tracks both;
				// in a quarter of the runs it has none, and soft limits (or limits further in) are the only
				// reason to keep count
				def.HardLimits.Cpu = 1000 + uint64(g.Choose(200000))
				def.HardLimits.Memory = 1000 + uint64(g.Choose(200000))
				switch g.Choose(8) {
				case 0:
					def.HardLimits = rt.RuntimeResources{}
				case 1:
					def.HardLimits.Memory = 0
				}
			}
			if g.Chance(1, 4) {
				def.HardLimits.Millis = []uint64{1, 5, 50, 1000, 1 << 40}[g.Choose(5)]
			}
			if g.Chance(1, 2) {
				def.SoftLimits = rt.RuntimeResources{Cpu: limitPool(g, rem[0]), Memory: limitPool(g, rem[1])}
				if g.Chance(1, 4) {
					def.SoftLimits.Millis = []uint64{1, 5, 50, 1000}[g.Choose(4)]
				}
			}
			def.RequiredFlags = rt.ComplianceFlags(g.Choose(16))
			hist = append(hist, fmt.Sprintf("push hard=%v soft=%v flags=%v  (clock %d)", def.HardLimits, def.SoftLimits, def.RequiredFlags.Names(), clock.Now()%100000))
			// a parent whose time has run out must be terminated when observed (push observes)
			expired := parent != nil && parent.hard[2].Cmp(inf) != 0 && rem[2].Sign() <= 0
			term, other := do(func() { r.PushContext(def) })
			if other != nil {
				fail("C07.P", "panic", "PushContext panicked: %v", other)
				return
			}
			if term {
				if !expired {
					fail("C07.I5", "spurious-termination", "PushContext terminated the running context although no limit was reached")
					return
				}
				parent.status = rt.StatusKilled
				kills++
				ctx.Count("fault.kill-time (expired parent observed at push)", 1)
				continue
			}
			if expired {
				fail("C07.I1", "time-expired-parent-not-killed", "parent had %s ms left but a child was pushed", rem[2])
				return
			}
			pushes++
			c := r.RuntimeContext()
			nf := &mframe{status: rt.StatusLive, held: new(big.Int), startMs: clock.Now()}
			if parent != nil {
				nf.softStop = parent.softStop // a stop requested on a context holds for the contexts it creates afterwards
			}
			h, s := resArr(c.HardLimits()), resArr(c.SoftLimits())
			dh := resArr(def.HardLimits)
			for x := 0; x < 3; x++ {
				nf.used[x] = new(big.Int)
				want := bmin(rem[x], lim(dh[x]))
				got := lim(h[x])
				// I1: never more than what the parent has left, never more than asked for
				if got.Cmp(want) > 0 {
					fail("C07.I1", "child-budget-exceeds:"+resNames[x], "child kill.%s=%d but the parent has %s left and the definition asks for %d", resNames[x], h[x], rem[x], dh[x])
					return
				}
				if got.Sign() <= 0 {
					fail("C07.I1", "child-budget-zero:"+resNames[x], "child kill.%s=%d", resNames[x], h[x])
					return
				}
				nf.hard[x] = got
				nf.soft[x] = lim(s[x])
				// I2: soft <= hard
				if nf.soft[x].Cmp(nf.hard[x]) > 0 {
					fail("C07.I2", "soft-exceeds-hard:"+resNames[x], "child stop.%s=%d exceeds kill.%s=%d", resNames[x], s[x], resNames[x], h[x])
					return
				}
				ds := resArr(def.SoftLimits)
				if ds[x] != 0 && nf.soft[x].Cmp(lim(ds[x])) > 0 {
					fail("C07.I2", "soft-exceeds-definition:"+resNames[x], "child stop.%s=%d exceeds the requested %d", resNames[x], s[x], ds[x])
					return
				}
			}
			timed := nf.hard[2].Cmp(inf) != 0 || nf.soft[2].Cmp(inf) != 0
			nf.tracked[0] = nf.hard[0].Cmp(inf) != 0 || nf.soft[0].Cmp(inf) != 0 || timed
			nf.tracked[1] = nf.hard[1].Cmp(inf) != 0 || nf.soft[1].Cmp(inf) != 0
			if !nf.tracked[0] || !nf.tracked[1] {
				ctx.Count("frames with an uncounted resource", 1)
			}
			nf.flags = def.RequiredFlags
			if parent != nil {
				nf.flags |= parent.flags
			}
			if def.HardLimits.Cpu > 0 {
				nf.flags |= rt.ComplyCpuSafe
			}
			if def.HardLimits.Memory > 0 {
				nf.flags |= rt.ComplyMemSafe
			}
			if def.HardLimits.Millis > 0 {
				nf.flags |= rt.ComplyTimeSafe
			}
			got := c.RequiredFlags()
			if got&nf.flags != nf.flags {
				fail("C07.I3", "flags-not-inherited", "child flags %v do not include %v", got.Names(), nf.flags.Names())
				return
			}
			nf.flags = got
			stack = append(stack, nf)
			if len(stack) > depthMax {
				depthMax = len(stack)
			}
			check("push")
		case 1: // pop
			hist = append(hist, "pop")
			var ret rt.RuntimeContext
			term, other := do(func() { ret = r.PopContext() })
			if other != nil {
				fail("C07.P", "panic", "PopContext panicked: %v", other)
				return
			}
			child := f
			stack = stack[:len(stack)-1]
			parent := cur()
			if parent != nil {
				for x := 0; x < 2; x++ {
					if parent.tracked[x] && child.tracked[x] {
						parent.used[x] = new(big.Int).Add(parent.used[x], child.used[x])
						if !parent.used[x].IsUint64() {
							parent.used[x] = new(big.Int).SetUint64(^uint64(0)) // saturates
						}
					}
				}
			}
			if term {
				// allowed only if the parent's time has run out
				if parent == nil || parent.hard[2].Cmp(inf) == 0 || new(big.Int).Sub(parent.hard[2], elapsed(parent)).Sign() > 0 {
					fail("C07.I4", "parent-killed-at-pop", "popping a child terminated the parent although the child's usage fits in the parent's budget")
					return
				}
				parent.status = rt.StatusKilled
				kills++
				continue
			}
			if ret == nil {
				fail("C07.I5", "pop-returned-nil", "PopContext returned nil")
				return
			}
			want := child.status
			if want == rt.StatusLive {
				want = rt.StatusDone
			}
			if ret.Status() != want {
				fail("C07.I5", "popped-status", "popped context reports %v, expected %v", ret.Status(), want)
				return
			}
			ru := resArr(ret.UsedResources())
			for x := 0; x < 2; x++ {
				if child.tracked[x] && new(big.Int).SetUint64(ru[x]).Cmp(child.used[x]) != 0 {
					fail("C07.I4", "popped-used:"+resNames[x], "popped context reports used.%s=%d, ledger says %s", resNames[x], ru[x], child.used[x])
					return
				}
			}
			check("pop")
		case 2, 3: // require cpu / mem
			x := op - 2
			rem := new(big.Int).Sub(f.hard[x], f.used[x])
			n := amountPool(g, rem)
			hist = append(hist, fmt.Sprintf("require %s %d", resNames[x], n))
			term, other := do(func() {
				if x == 0 {
					r.RequireCPU(n)
				} else {
					r.RequireMem(n)
				}
			})
			if other != nil {
				fail("C07.P", "panic", "Require panicked: %v", other)
				return
			}
			sum := new(big.Int).Add(f.used[x], new(big.Int).SetUint64(n))
			if !f.tracked[x] {
				sum = f.used[x] // nothing limits this resource here: not counted
			}
			if !sum.IsUint64() {
				sum = new(big.Int).SetUint64(^uint64(0)) // the counters are 64 bits wide and saturate (only reachable without a hard limit)
			}
			mustKill := sum.Cmp(f.hard[x]) >= 0
			timeKill := false
			if x == 0 && !mustKill && f.hard[2].Cmp(inf) != 0 && new(big.Int).Sub(f.hard[2], elapsed(f)).Sign() <= 0 {
				timeKill = true // the implementation may notice the time limit here (it samples the clock every 10000 ticks)
			}
			switch {
			case term && (mustKill || timeKill):
				if !mustKill {
					// killed for time while charging cpu: the amount may or may not have been recorded
					// (it is below the cpu limit either way)
					if got := r.RuntimeContext().UsedResources().Cpu; new(big.Int).SetUint64(got).Cmp(sum) == 0 {
						f.used[x] = sum
					}
				}
				f.status = rt.StatusKilled
				kills++
				ctx.Count("fault.kill-"+resNames[x]+" (requirement reached the limit)", 1)
			case term:
				fail("C07.I4", "spurious-termination", "require %s %d terminated the context: used %s, kill %s", resNames[x], n, f.used[x], f.hard[x])
				return
			case mustKill:
				fail("C07.I4", "limit-bypassed:"+resNames[x], "require %s %d succeeded although used %s + %d reaches kill %s", resNames[x], n, f.used[x], n, f.hard[x])
				return
			default:
				if x == 0 && f.hard[2].Cmp(inf) != 0 && new(big.Int).Sub(f.hard[2], elapsed(f)).Sign() <= 0 {
					// I8: the time is up; the implementation samples the clock every 10000 ticks of cpu, so
					// it may not have noticed yet - but it has to within two such periods
					if f.cpuAfterExpiry += n; f.cpuAfterExpiry > 25000 {
						fail("C07.I8", "time-limit-not-enforced", "the context's time ran out %s ms ago and it has been charged %d cpu ticks since without being terminated", new(big.Int).Sub(elapsed(f), f.hard[2]), f.cpuAfterExpiry)
						return
					}
					ctx.Count("probe.cpu charged after the time ran out (within the sampling period)", 1)
				}
				f.used[x] = sum
				if x == 1 && f.tracked[1] {
					f.held = new(big.Int).Add(f.held, new(big.Int).SetUint64(n))
				}
			}
			check("require")
		case 4: // release memory held by this frame
			if f.held.Sign() == 0 {
				continue
			}
			var n uint64 = 1
			if f.held.IsUint64() && f.held.Uint64() > 1 {
				n = 1 + uint64(g.Choose(int(bminU(f.held.Uint64(), 1<<30))))
			}
			hist = append(hist, fmt.Sprintf("release memory %d", n))
			term, other := do(func() { r.ReleaseMem(n) })
			if other != nil || term {
				fail("C07.P", "panic", "ReleaseMem(%d) panicked: %v (held %s)", n, other, f.held)
				return
			}
			bn := new(big.Int).SetUint64(n)
			f.held.Sub(f.held, bn)
			f.used[1] = new(big.Int).Sub(f.used[1], bn)
			check("release")
		case 5: // soft stop on the running context or an enclosing one
			c := r.RuntimeContext()
			k := g.Choose(len(stack))
			target := stack[len(stack)-1-k]
			for j := 0; j < k && !nilCtx(c.Parent()); j++ {
				c = c.Parent()
			}
			hist = append(hist, fmt.Sprintf("softstop frame-%d", k))
			term, other := do(func() { c.SetStopLevel(rt.SoftStop) })
			if term || other != nil {
				fail("C07.I6", "softstop-terminates", "SetStopLevel(SoftStop) panicked: term=%v %v", term, other)
				return
			}
			target.softStop = true
			ctx.Count("fault.stop-now (soft)", 1)
			check("softstop")
		case 6: // hard stop on the running context
			hist = append(hist, "hardstop")
			term, other := do(func() { r.RuntimeContext().SetStopLevel(rt.HardStop) })
			if other != nil {
				fail("C07.P", "panic", "SetStopLevel(HardStop) panicked: %v", other)
				return
			}
			if !term {
				fail("C07.I5", "hardstop-ignored", "SetStopLevel(HardStop) on the running context did not terminate it")
				return
			}
			f.status = rt.StatusKilled
			kills++
			ctx.Count("fault.kill-now", 1)
			check("hardstop")
		case 7: // clock
			d := []uint64{0, 1, 3, 20, 200, 100000}[g.Weighted(2, 4, 3, 2, 1, 1)]
			hist = append(hist, fmt.Sprintf("advance clock %d ms", d))
			clock.Advance(d)
			ctx.SimMs += d
			ctx.Count("fault.clock-advance", 1)
		}
	}
	ctx.Count("history.ops", int64(len(hist)))
	ctx.Count("history.max-depth", int64(depthMax))
	ctx.Trivial = kills == 0 && pushes < 2
	ctx.Shape = core.HashStrings(hist)
	if ctx.Sample == "" {
		ctx.Sample = strings.Join(hist, "\n")
	}
}

func bminU(a, b uint64) uint64 {
	if a < b {
		return a
	}
	return b
}

//go:build verif

package engines

import (
	"fmt"
	"strings"
)

// SimLua (DESIGN appendix A): a small structured language with two independent
// consumers: a renderer to Lua source (one potential error site per line, so
// that line numbers in messages are predictable) and a reference interpreter
// written from the Lua 5.4 manual (simmodel.go).  No code is shared with golua.

type vkind byte

const (
	vNil vkind = iota
	vBool
	vInt
	vStr
	vTbl  // table by identity; id is the generator id stored in field "id"
	vFn   // global function by name
	vCo   // coroutine
	vWrap // coroutine.wrap function
)

type mval struct {
	k   vkind
	i   int64
	s   string
	ref interface{} // *mtable, *mco
}

type mtable struct {
	id        int64
	closable  bool
	stripped  bool // lost its __close after it was declared
	closeMode int  // 0 plain, 1 raises, 2 calls function closeArg, 3 coroutine op on global C<closeArg>
	closeArg  int
}

func (v mval) truthy() bool { return !(v.k == vNil || (v.k == vBool && v.i == 0)) }

func (v mval) canon() string {
	switch v.k {
	case vNil:
		return "nil"
	case vBool:
		if v.i != 0 {
			return "true"
		}
		return "false"
	case vInt:
		return fmt.Sprint(v.i)
	case vStr:
		return fmt.Sprintf("%q", v.s)
	case vTbl:
		if v.ref == nil {
			return fmt.Sprintf("T<%d>", v.i)
		}
		return fmt.Sprintf("T<%d>", v.ref.(*mtable).id)
	case vFn, vWrap:
		return "function"
	case vCo:
		return "thread"
	}
	return "?"
}

// ---- expressions

type ekind byte

const (
	eConst ekind = iota
	eGlobal
	eLocal
	eNewTbl   // {id=N}: fresh table
	eMkc      // mkc(id, mode, arg): fresh closable table
	eCall     // call of a function value expression with args
	eBuiltin  // builtin by name (pcall, xpcall, coroutine.*, select#) with args
	eVararg   // ...
	eEq       // a == b
	eLt       // a < b (ints)
	eAdd      // a + b (ints)
	eFnRef    // reference to global function F<n> / H<n>
	eProbeVal // probe(k, exp): returns exp (or raises)
)

type expr struct {
	k    ekind
	v    mval
	name string
	n    int64
	args []*expr
	fn   *expr
}

// ---- statements

type skind byte

const (
	sEmit skind = iota
	sProbe
	sAssignG
	sLocal
	sAssignL
	sLocalClose // local X <close> = exp
	sDo
	sIf
	sFor
	sForIn // for X in upto(n), nil, 0, <closing value> do ... end
	sWhile
	sBreak
	sGoto
	sLabel
	sReturn
	sCallStmt
	sError
	sRtErr
	sStrip // getmetatable(X).__close = nil: a pending value loses its handler
	sStorm // for _ = 1, n do pcall(error, "m") end: many caught errors, no event
)

type stmt struct {
	k     skind
	tag   string
	name  string
	exps  []*expr
	body  []*stmt
	els   []*stmt
	n     int64
	level int
	line  int // assigned by the renderer
	end   int // line of the closing 'end' for block statements
}

type funcDef struct {
	name   string
	params []string
	vararg bool
	body   []*stmt
	line   int
	endLn  int
}

type program struct {
	funcs []*funcDef
	main  []*stmt
	nglob int
}

// simPrelude is rendered first; its line numbers are fixed.
//
//	line 1: NILV
//	line 2..: mkc
const simPrelude = `NILV = nil
function mkc(k, mode, arg)
  return setmetatable({id = k}, {__close = function(o, e)
    emit("close", k, e)
    if mode == 1 then
      error("ce" .. k)
    elseif mode == 2 then
      _G["F" .. arg]()
    end
  end})
end
function upto(n) return function(_, i) if i < n then return i + 1 end end end
MT = setmetatable({}, {__newindex = function() error("m901", 2) end, __index = function() error("m902", 2) end, __add = function() error({id = 903}) end, __call = function() error("m904", 2) end, __unm = function() error("m905") end, __concat = function() error(nil) end})
`

const simPreludeLines = 13
const simMTLine = 13        // line of the metamethods of MT in the prelude
const simCloseRaiseLine = 6 // line of error("ce"..k) in the prelude

type renderer struct {
	b    strings.Builder
	line int
	ind  int
}

func (r *renderer) ln(s string) int {
	r.line++
	r.b.WriteString(strings.Repeat("  ", r.ind))
	r.b.WriteString(s)
	r.b.WriteByte('\n')
	return r.line
}

func renderVal(v mval) string {
	switch v.k {
	case vNil:
		return "nil"
	case vBool:
		if v.i != 0 {
			return "true"
		}
		return "false"
	case vInt:
		return fmt.Sprint(v.i)
	case vStr:
		return fmt.Sprintf("%q", v.s)
	}
	return "nil"
}

func renderExpr(e *expr) string {
	switch e.k {
	case eConst:
		return renderVal(e.v)
	case eGlobal, eLocal:
		return e.name
	case eNewTbl:
		return fmt.Sprintf("{id = %d}", e.n)
	case eMkc:
		return fmt.Sprintf("mkc(%d, %d, %d)", e.n, e.args[0].v.i, e.args[1].v.i)
	case eCall:
		return renderExpr(e.fn) + "(" + renderArgs(e.args) + ")"
	case eBuiltin:
		switch e.name {
		case "select#":
			if len(e.args) == 0 {
				return `select("#")`
			}
			return `select("#", ` + renderArgs(e.args) + ")"
		case "ismain":
			return `select(2, coroutine.running())`
		}
		return e.name + "(" + renderArgs(e.args) + ")"
	case eVararg:
		return "..."
	case eEq:
		return "(" + renderExpr(e.args[0]) + " == " + renderExpr(e.args[1]) + ")"
	case eLt:
		return "(" + renderExpr(e.args[0]) + " < " + renderExpr(e.args[1]) + ")"
	case eAdd:
		return "(" + renderExpr(e.args[0]) + " + " + renderExpr(e.args[1]) + ")"
	case eFnRef:
		return e.name
	case eProbeVal:
		return fmt.Sprintf("probe(%d, %s)", e.n, renderExpr(e.args[0]))
	}
	return "nil"
}

func renderArgs(a []*expr) string {
	p := make([]string, len(a))
	for i, e := range a {
		p[i] = renderExpr(e)
	}
	return strings.Join(p, ", ")
}

func (r *renderer) block(b []*stmt) {
	r.ind++
	for _, s := range b {
		r.stmt(s)
	}
	r.ind--
}

func (r *renderer) stmt(s *stmt) {
	switch s.k {
	case sEmit:
		a := renderArgs(s.exps)
		if a != "" {
			a = ", " + a
		}
		s.line = r.ln(fmt.Sprintf("emit(%q%s)", s.tag, a))
	case sProbe:
		s.line = r.ln(fmt.Sprintf("probe(%d)", s.n))
	case sAssignG, sAssignL:
		s.line = r.ln(s.name + " = " + renderExpr(s.exps[0]))
	case sLocal:
		s.line = r.ln("local " + s.name + " = " + renderExpr(s.exps[0]))
	case sLocalClose:
		s.line = r.ln("local " + s.name + " <close> = " + renderExpr(s.exps[0]))
	case sDo:
		s.line = r.ln("do")
		r.block(s.body)
		s.end = r.ln("end")
	case sIf:
		s.line = r.ln("if " + renderExpr(s.exps[0]) + " then")
		r.block(s.body)
		if s.els != nil {
			r.ln("else")
			r.block(s.els)
		}
		s.end = r.ln("end")
	case sFor:
		s.line = r.ln(fmt.Sprintf("for %s = 1, %d do", s.name, s.n))
		r.block(s.body)
		s.end = r.ln("end")
	case sForIn:
		s.line = r.ln(fmt.Sprintf("for %s in upto(%d), nil, 0, %s do", s.name, s.n, renderExpr(s.exps[0])))
		r.block(s.body)
		s.end = r.ln("end")
	case sWhile:
		s.line = r.ln(fmt.Sprintf("while %s < %d do", s.name, s.n))
		r.ind++
		r.ln(fmt.Sprintf("%s = %s + 1", s.name, s.name))
		r.ind--
		r.block(s.body)
		s.end = r.ln("end")
	case sBreak:
		s.line = r.ln("break")
	case sGoto:
		s.line = r.ln("goto " + s.name)
	case sLabel:
		s.line = r.ln("::" + s.name + "::")
	case sReturn:
		if len(s.exps) == 0 {
			s.line = r.ln("do return end")
		} else {
			s.line = r.ln("do return " + renderArgs(s.exps) + " end")
		}
	case sCallStmt:
		s.line = r.ln(renderExpr(s.exps[0]))
	case sError:
		if s.level == 1 {
			s.line = r.ln("error(" + renderExpr(s.exps[0]) + ")")
		} else {
			s.line = r.ln(fmt.Sprintf("error(%s, %d)", renderExpr(s.exps[0]), s.level))
		}
	case sStorm:
		s.line = r.ln(fmt.Sprintf(`for _ = 1, %d do pcall(error, "storm") pcall(string.rep) end`, s.n))
	case sStrip:
		s.line = r.ln(fmt.Sprintf("getmetatable(%s).__close = nil", s.name))
	case sRtErr:
		switch s.n {
		case 0:
			s.line = r.ln("G9 = NILV + 1")
		case 1:
			s.line = r.ln("NILV.x = 1")
		case 2:
			s.line = r.ln("NILV()")
		case 3:
			s.line = r.ln(`G9 = "a" .. NILV`)
		case 4:
			s.line = r.ln(`G9 = "abc" + 1`)
		case 5:
			s.line = r.ln(`G9 = {} < {}`)
		case 6:
			s.line = r.ln(`G9 = #NILV`)
		case 7:
			s.line = r.ln(`G9 = -{}`)
		case 8:
			s.line = r.ln(`G9 = 1 // 0`)
		case 9:
			s.line = r.ln(`G9 = 2^53 | 1.5`)
		case 11:
			s.line = r.ln(`MT.x = 1`)
		case 12:
			s.line = r.ln(`G9 = MT.k5`)
		case 13:
			s.line = r.ln(`G9 = "10" + MT`)
		case 14:
			s.line = r.ln(`G9 = MT + 1`)
		case 15:
			s.line = r.ln(`MT(7)`)
		case 16:
			s.line = r.ln(`G9 = -MT`)
		case 17:
			s.line = r.ln(`G9 = MT .. "x"`)
		case 18:
			// an error raised by a call hook belongs to the code whose call fired the hook
			s.line = r.ln(`debug.sethook(function() if HK then HK = false error({id = 906}) end end, "c") HK = true G9 = type(1)`)
		default:
			s.line = r.ln(`G9 = ("x").y.z`)
		}
	}
}

func renderProgram(p *program) string {
	r := &renderer{}
	r.b.WriteString(simPrelude)
	r.line = simPreludeLines
	for _, f := range p.funcs {
		params := strings.Join(f.params, ", ")
		if f.vararg {
			if params != "" {
				params += ", "
			}
			params += "..."
		}
		f.line = r.ln(fmt.Sprintf("function %s(%s)", f.name, params))
		r.block(f.body)
		f.endLn = r.ln("end")
	}
	for _, s := range p.main {
		r.stmt(s)
	}
	return r.b.String()
}

//go:build verif && !noquotas

package engines

import (
	"fmt"
	"os"
	"path/filepath"
	"regexp"
	"sort"
	"strings"
	"time"

	rt "github.com/arnodel/golua/runtime"

	"vsim/core"
	"vsim/harness"
)

// E-FLAGS (DESIGN §4 C08).  Every Go function reachable from the global
// environment, package.loaded and the metatables of standard values is called
// under every subset of required compliance flags, through several call
// spellings, with tape-chosen edge arguments (including real paths and shell
// commands aimed at a private sentinel directory).
//
//	G1  a flag set the function has not declared => ordinary Lua error "missing
//	    flags" before the function runs (same error whatever the arguments, the
//	    sentinel directory untouched), the context stays live and runs the next call;
//	G2  a function that declared iosafe, called in a context requiring iosafe,
//	    leaves the sentinel directory byte-identical, starts no process that
//	    touches it, and returns nothing that contains the secret stored in it.
//
// The function x flag-subset grid is exhaustive; arguments and spellings are
// sampled.  (Read-only access that returns nothing and network access are not
// observable by this oracle; the system-call seam of DESIGN §2 was not built.)

func init() {
	core.Register(&core.Engine{Name: "flags", Run: runFlags})
}

// functions not called in the unrestricted warm-up (they act without arguments)
var flagsNoWarmup = map[string]bool{"_G.os.exit": true, "_G.io.tmpfile": true, "_G.os.tmpname": true, "_G.package.loaded.os.exit": true, "_G.package.loaded.io.tmpfile": true, "_G.package.loaded.os.tmpname": true, "_G.collectgarbage": true, "_G.runtime.killcontext": true, "_G.package.loaded.runtime.killcontext": true, "_G.coroutine.yield": true, "_G.package.loaded.coroutine.yield": true}

type goFn struct {
	path string
	v    rt.Value
}

func collectGoFunctions(h *harness.Host) []goFn {
	seen := map[*rt.Table]bool{}
	seenF := map[interface{}]bool{}
	var out []goFn
	var walk func(path string, v rt.Value, depth int)
	walk = func(path string, v rt.Value, depth int) {
		switch v.Type() {
		case rt.FunctionType:
			if gf, ok := v.AsCallable().(*rt.GoFunction); ok {
				if !seenF[gf] {
					seenF[gf] = true
					out = append(out, goFn{path, v})
				}
			}
		case rt.TableType:
			t := v.AsTable()
			if seen[t] || depth > 4 {
				return
			}
			seen[t] = true
			var keys []string
			vals := map[string]rt.Value{}
			k, val, _ := t.Next(rt.NilValue)
			for !k.IsNil() {
				if s, ok := k.TryString(); ok {
					keys = append(keys, s)
					vals[s] = val
				}
				k, val, _ = t.Next(k)
			}
			sort.Strings(keys)
			for _, s := range keys {
				walk(path+"."+s, vals[s], depth+1)
			}
			if m := t.Metatable(); m != nil {
				walk(path+"<meta>", rt.TableValue(m), depth+1)
			}
		case rt.UserDataType:
			if m := v.AsUserData().Metatable(); m != nil {
				walk(path+"<meta>", rt.TableValue(m), depth+1)
			}
		}
	}
	walk("_G", rt.TableValue(h.R.GlobalEnv()), 0)
	if m := h.R.RawMetatable(rt.StringValue("")); m != nil {
		walk("<stringmeta>", rt.TableValue(m), 0)
	}
	// values returned by functions: iterators, wrappers, context objects
	out2 := h.Run("fl", `local t = {}
t.gmatch = string.gmatch("a b", "%a")
t.lines = io.lines
t.wrap = coroutine.wrap(function() end)
t.ipairs = ipairs({})
t.pairs = pairs({})
t.codes = utf8.codes("a")
t.ctx = runtime.context()
t.used = runtime.context().used
t.stdout = io.stdout
return t`)
	if len(out2.Values) == 1 {
		walk("<ret>", out2.Values[0], 0)
	}
	sort.Slice(out, func(i, j int) bool { return out[i].path < out[j].path })
	return out
}

type sentinel struct {
	dir    string
	secret string
	snap   map[string]string
}

func newSentinel(nonce uint64) *sentinel {
	dir, err := os.MkdirTemp("/var/tmp", "vsim-sentinel-")
	if err != nil {
		return nil
	}
	s := &sentinel{dir: dir, secret: fmt.Sprintf("SECRET-%016x", nonce)}
	s.populate()
	return s
}

// populate fills the (empty) sentinel directory and points temporary files and relative names at it.
func (s *sentinel) populate() {
	dir := s.dir
	os.MkdirAll(dir, 0o755)
	os.WriteFile(filepath.Join(dir, "secret.txt"), []byte(s.secret+"\nline2\n"), 0o644)
	os.Mkdir(filepath.Join(dir, "sub"), 0o755)
	os.WriteFile(filepath.Join(dir, "smod.lua"), []byte(fmt.Sprintf("local f = io.open(%q, \"w\") if f then f:write(\"x\") f:close() end return %q\n", filepath.Join(dir, "executed"), s.secret)), 0o644)
	os.Mkdir(filepath.Join(dir, "tmp"), 0o755)
	os.Setenv("TMPDIR", filepath.Join(dir, "tmp"))
	os.Chdir(dir)
	s.snap = s.snapshot()
}

// reset starts again from a fresh sentinel after a legitimate effect.
func (s *sentinel) reset() {
	os.Chdir("/var/tmp")
	os.RemoveAll(s.dir)
	s.populate()
}

func (s *sentinel) snapshot() map[string]string {
	m := map[string]string{}
	filepath.Walk(s.dir, func(p string, info os.FileInfo, err error) error {
		if err != nil {
			return nil
		}
		rel, _ := filepath.Rel(s.dir, p)
		if info.IsDir() {
			m[rel] = "dir " + info.Mode().String()
		} else {
			b, _ := os.ReadFile(p)
			m[rel] = fmt.Sprintf("file %s %x", info.Mode().String(), core.HashString(string(b)))
		}
		return nil
	})
	return m
}

func (s *sentinel) changed() string {
	now := s.snapshot()
	for k, v := range s.snap {
		if nv, ok := now[k]; !ok {
			return "deleted " + k
		} else if nv != v {
			return "modified " + k
		}
	}
	for k := range now {
		if _, ok := s.snap[k]; !ok {
			return "created " + k
		}
	}
	return ""
}

// settle waits until the directory has stopped changing: a process started by an allowed io.popen or
// os.execute does its work on its own time, and what it does must be billed to the call that started
// it, not to whichever call happens to be checked when it gets round to it.
func (s *sentinel) settle() {
	prev := fmt.Sprint(s.snapshot())
	for i := 0; i < 20; i++ {
		time.Sleep(15 * time.Millisecond)
		cur := fmt.Sprint(s.snapshot())
		if cur == prev && i >= 1 {
			return
		}
		prev = cur
	}
}

func (s *sentinel) restore() {
	os.Chdir("/var/tmp")
	os.Unsetenv("TMPDIR")
	os.RemoveAll(s.dir)
}

// sysTracer reads the worker's own strace output (the supervisor starts the worker under strace for
// the "trace" batch): what a call did at the operating-system boundary, also when nothing comes back
// to Lua and nothing changes on disk (a silent read, a connection attempt, a process started).
type sysTracer struct {
	f   *os.File
	seq int
	buf []byte
	// processes started outside the windows (by calls that were allowed to) and their descendants: they
	// run on their own time and what they do is not the doing of the call being watched
	children map[string]bool
}

var reChildPid = regexp.MustCompile(`^(\d+) +(?:clone3?|fork|vfork)\(.*\) = (\d+)$`)

// learn records the processes created in the given part of the trace; inWindow tells whether creations
// by the worker itself count (they do not: those are what the window is there to catch).
func (t *sysTracer) learn(lines []string, inWindow bool) {
	if t.children == nil {
		t.children = map[string]bool{}
	}
	for _, l := range lines {
		m := reChildPid.FindStringSubmatch(strings.TrimSpace(l))
		if m == nil || strings.Contains(l, "CLONE_THREAD") {
			continue
		}
		if t.children[m[1]] || !inWindow {
			t.children[m[2]] = true
		}
	}
}

func (t *sysTracer) own(lines []string) []string {
	var out []string
	for _, l := range lines {
		f := strings.Fields(l)
		if len(f) > 0 && t.children[f[0]] {
			continue
		}
		out = append(out, l)
	}
	return out
}

func openTracer() *sysTracer {
	name := os.Getenv("VSIM_TRACE_FILE")
	if name == "" {
		return nil
	}
	f, err := os.Open(name)
	if err != nil {
		return nil
	}
	f.Seek(0, 2)
	return &sysTracer{f: f}
}

func (t *sysTracer) close() { t.f.Close() }

func (t *sysTracer) marker(kind string) string {
	m := fmt.Sprintf("/vsim-marker/%s%d-%d", kind, os.Getpid(), t.seq)
	os.Stat(m) // fails with ENOENT; the tracer logs it
	return m
}

func (t *sysTracer) begin() { t.seq++; t.buf = t.buf[:0]; t.marker("b") }

// end returns the system calls logged between the two markers (nil if the trace cannot be read).
func (t *sysTracer) end() []string {
	b := fmt.Sprintf("/vsim-marker/b%d-%d", os.Getpid(), t.seq)
	e := t.marker("e")
	tmp := make([]byte, 1<<16)
	for try := 0; try < 200; try++ {
		for {
			n, _ := t.f.Read(tmp)
			if n <= 0 {
				break
			}
			t.buf = append(t.buf, tmp[:n]...)
		}
		if strings.Contains(string(t.buf), e) {
			break
		}
		time.Sleep(time.Millisecond)
	}
	text := string(t.buf)
	i, j := strings.Index(text, b), strings.Index(text, e)
	if i < 0 || j < 0 || j < i {
		return nil
	}
	t.learn(strings.Split(text[:i], "\n"), false)
	lines := strings.Split(text[i:j], "\n")
	if len(lines) < 2 {
		return []string{}
	}
	lines = lines[1 : len(lines)-1]
	t.learn(lines, true)
	return t.own(lines)
}

// classify tells what a traced call did that an iosafe context must not do ("" if nothing).
func classifyTraced(lines []string, sentinelDir string) (string, string) {
	for _, l := range lines {
		if strings.Contains(l, " unlink") && strings.Contains(l, sentinelDir+"/tmp/golua") {
			// a temporary file of an earlier, legitimate io.tmpfile call being removed now that its
			// userdata is released: asynchronous clean-up, not an effect of the call in the window
			continue
		}
		switch {
		case strings.Contains(l, sentinelDir):
			return "file-access", l
		case strings.Contains(l, " socket(") || strings.Contains(l, " connect(") || strings.Contains(l, " bind(") || strings.Contains(l, " sendto(") || strings.Contains(l, " listen("):
			return "network", l
		case strings.Contains(l, " execve(") || strings.Contains(l, " fork(") || strings.Contains(l, " vfork("):
			return "process", l
		case (strings.Contains(l, " clone(") || strings.Contains(l, " clone3(")) && !strings.Contains(l, "CLONE_THREAD") && !strings.Contains(l, "resumed"):
			return "process", l
		}
	}
	return "", ""
}

func flagSet(bits int) rt.ComplianceFlags {
	all := []rt.ComplianceFlags{rt.ComplyCpuSafe, rt.ComplyMemSafe, rt.ComplyTimeSafe, rt.ComplyIoSafe}
	var f rt.ComplianceFlags
	for i, b := range all {
		if bits&(1<<i) != 0 {
			f |= b
		}
	}
	return f
}

// runPlant: code that is only ever handed to a context requiring iosafe plants something the runtime
// itself runs later - a finaliser, a debug hook - and leaves.  The host then goes on unrestricted
// (allocates, collects, closes the runtime).  Whatever was planted must not get to act on the outside
// once the context that confined it is gone: the sentinel stays as it was.
func runPlant(ctx *core.RunCtx) {
	g := ctx.Gen
	log := core.GetLog()
	defer core.PutLog(log)
	s := core.NewSched(core.ReplayTape(nil), 0)
	s.Begin()
	h := harness.NewHost(s, log)
	closed := false
	defer func() {
		if !closed {
			s.Reap(h.R.MainThread())
			h.Close()
		}
		s.End()
		s.Release()
	}()
	sen := newSentinel(uint64(g.Choose(1 << 30)))
	if sen == nil {
		return
	}
	defer sen.restore()
	target := filepath.Join(sen.dir, "planted.txt")
	payload := fmt.Sprintf(`local f = io.open(%q, "w") if f then f:write("x") f:close() end os.remove(%q) pcall(io.popen, "touch %s/planted-by-process")`, target, filepath.Join(sen.dir, "secret.txt"), sen.dir)
	mechs := []struct{ name, plant string }{
		{"finaliser-of-dropped-value", `setmetatable({}, {__gc = function() ` + payload + ` end})`},
		{"finaliser-of-kept-value", `PLANTED = setmetatable({}, {__gc = function() ` + payload + ` end})`},
		{"finaliser-of-userdata-metatable-shared", `local mt = {__gc = function() ` + payload + ` end} for i = 1, 3 do setmetatable({}, mt) end`},
		{"line-hook", `debug.sethook(function() debug.sethook() ` + payload + ` end, "l")`},
		{"call-hook", `debug.sethook(function() debug.sethook() ` + payload + ` end, "c")`},
		{"return-hook", `debug.sethook(function() debug.sethook() ` + payload + ` end, "r")`},
		{"count-hook", `debug.sethook(function() debug.sethook() ` + payload + ` end, "", 3)`},
		{"hook-on-coroutine-left-suspended", `PLANTEDCO = coroutine.create(function() coroutine.yield() end) coroutine.resume(PLANTEDCO) debug.sethook(PLANTEDCO, function() debug.sethook() ` + payload + ` end, "l")`},
		// (a __close handler of a coroutine left suspended is not in the list: it only runs when the host
		// itself closes that coroutine, which is the host's decision like calling a function it was given)
	}
	m := mechs[g.Choose(len(mechs))]
	flags := rt.ComplyIoSafe | flagSet(g.Choose(8))
	def := rt.RuntimeContextDef{RequiredFlags: flags}
	if g.Chance(1, 4) {
		def.HardLimits = rt.RuntimeResources{Cpu: 1000000, Memory: 10000000}
	}
	wrap := g.Choose(3)
	src := m.plant
	switch wrap {
	case 1:
		src = "pcall(function() " + src + " end)"
	case 2:
		src = "coroutine.wrap(function() " + src + " end)()"
	}
	ctx.Sample = fmt.Sprintf("-- mechanism %s, context %v limits %v\n%s", m.name, flags.Names(), def.HardLimits, src)
	ctx.Trivial = false
	ctx.Shape = core.HashString(ctx.Sample)
	ctx.Count("planted."+m.name, 1)
	clos, cerr, cpan := h.Compile("untrusted", src)
	if cerr != nil || cpan != nil {
		ctx.Fail("C08", "C08.H", "harness", "untrusted chunk does not compile: %v %v", cerr, cpan)
		return
	}
	th := h.R.MainThread()
	var pan interface{}
	func() {
		defer func() { pan = recover() }()
		th.CallContext(def, func() error {
			return rt.Call(th, rt.FunctionValue(clos), nil, rt.NewTerminationWith(nil, 0, true))
		})
	}()
	if pan != nil {
		if _, ok := pan.(rt.ContextTerminationError); !ok {
			ctx.Fail("C08", "C08.P", "panic", "Go panic while the untrusted chunk ran: %v", pan)
			return
		}
	}
	if ch := sen.changed(); ch != "" {
		ctx.Fail("C08", "C08.G2", "outside-effect:planted-"+m.name, "the sentinel directory changed (%s) while the code ran inside the context requiring %v", ch, flags.Names())
		return
	}
	// the context is gone; the host carries on without restrictions
	out := h.Run("host", `local t = {} for i = 1, 200 do t[i] = {i} end local function f(x) return x + 1 end for i = 1, 20 do f(i) end collectgarbage() collectgarbage() return #t`)
	if out.Panic != nil {
		ctx.Fail("C08", "C08.P", "panic", "Go panic in host code after the context: %v", out.Panic)
		return
	}
	if g.Chance(1, 2) {
		h.Run("host2", `if PLANTEDCO then coroutine.close(PLANTEDCO) end PLANTED = nil collectgarbage()`)
	}
	s.Reap(h.R.MainThread())
	h.Close()
	closed = true
	if ch := sen.changed(); ch != "" {
		ctx.Fail("C08", "C08.G4", "deferred-effect:"+m.name, "code handed only to a context requiring %v acted on the outside after that context had ended (%s): planted through %s, wrap=%d, limits=%v", flags.Names(), ch, m.name, wrap, def.HardLimits)
		return
	}
}

func runFlags(ctx *core.RunCtx) {
	if ctx.Mode == "plant" {
		runPlant(ctx)
		return
	}
	g := ctx.Gen
	log := core.GetLog()
	defer core.PutLog(log)
	s := core.NewSched(core.ReplayTape(nil), 0)
	s.Begin()
	h := harness.NewHost(s, log)
	defer func() {
		s.Reap(h.R.MainThread())
		h.Close()
		s.End()
		s.Release()
	}()
	var tracer *sysTracer
	if ctx.Mode == "trace" {
		if tracer = openTracer(); tracer == nil {
			ctx.Fail("C08", "HARNESS", "no-tracer", "the trace batch needs the worker to run under strace (VSIM_TRACE_FILE unset or unreadable)")
			return
		}
		defer tracer.close()
	}
	fns := collectGoFunctions(h)
	if len(fns) < 100 {
		ctx.Fail("C08", "C08.H", "harness", "only %d Go functions discovered", len(fns))
		return
	}
	ctx.Count("functions discovered", int64(len(fns)))
	fi := g.Choose(len(fns))
	fn := fns[fi]
	sen := newSentinel(uint64(g.Choose(1 << 30)))
	if sen == nil {
		return
	}
	defer sen.restore()
	// make relative names resolve inside the sentinel too
	h.Run("pp", fmt.Sprintf("package.path = %q", filepath.Join(sen.dir, "?.lua")))
	th := h.R.MainThread()

	mkArgs := func(aimed bool) ([]rt.Value, string) {
		n := g.Weighted(1, 4, 4, 2)
		var vals []rt.Value
		var desc []string
		if aimed {
			// the shape file functions expect: an existing path, then a second path or a mode
			p := []string{"secret.txt", "smod.lua", "sub", "secret.txt"}[g.Choose(4)]
			vals = append(vals, rt.StringValue(filepath.Join(sen.dir, p)))
			switch g.Choose(4) {
			case 0:
				vals = append(vals, rt.StringValue(filepath.Join(sen.dir, []string{"newfile.txt", "sub/new", "secret.txt"}[g.Choose(3)])))
			case 1:
				vals = append(vals, rt.StringValue([]string{"w", "a", "r+", "r", "w+"}[g.Choose(5)]))
			case 2:
				vals = append(vals, rt.StringValue([]string{"*a", "a", "n", "l"}[g.Choose(4)]))
			}
			for _, v := range vals {
				desc = append(desc, harness.Canon(v))
			}
			return vals, strings.Join(desc, ", ")
		}
		for i := 0; i < n; i++ {
			var v rt.Value
			switch g.Weighted(5, 3, 2, 2, 2, 1, 1, 1, 1) {
			case 0:
				p := []string{"secret.txt", "newfile.txt", "sub", "smod.lua", "sub/new", "executed"}[g.Choose(6)]
				v = rt.StringValue(filepath.Join(sen.dir, p))
			case 1:
				cmds := []string{"touch %s/cmd-ran", "cat %s/secret.txt", "rm -f %s/secret.txt", "echo x > %s/secret.txt"}
				v = rt.StringValue(fmt.Sprintf(cmds[g.Choose(len(cmds))], sen.dir))
			case 2:
				v = rt.StringValue([]string{"r", "w", "a", "r+", "smod", "a", "*a", "n", "l"}[g.Choose(9)])
			case 3:
				v = rt.IntValue([]int64{0, 1, -1, 2, 3}[g.Choose(5)]) // no huge sizes: unlimited contexts here
			case 4:
				v = rt.NilValue
			case 5:
				v = rt.TableValue(rt.NewTable())
			case 6:
				v = rt.BoolValue(true)
			case 7:
				v = h.R.GlobalEnv().Get(rt.StringValue("type"))
			default:
				v = rt.FloatValue(1.5)
			}
			vals = append(vals, v)
			desc = append(desc, harness.Canon(v))
		}
		return vals, strings.Join(desc, ", ")
	}
	// Lua glue for the spellings that need Lua code around the call
	glue := h.Run("glue", `return function(f) local co = coroutine.wrap(function() return f(coroutine.yield()) end) co() return co end,
	function(f) return load("local f = ... return function(...) return f(...) end")(f) end,
	function(f) return setmetatable({}, {__call = function(_, ...) return f(...) end}) end,
	function(flagstr, f, ...) local r = table.pack(runtime.callcontext({flags = flagstr}, f, ...)) if r[1].status == "error" then error(r[2], 0) end return table.unpack(r, 2, r.n) end`)
	if glue.Err != nil || glue.Panic != nil || len(glue.Values) != 4 {
		ctx.Fail("C08", "C08.H", "harness", "glue chunk failed: %s", glue.String())
		return
	}
	// built OUTSIDE the context that will require the flags: a coroutine suspended inside the argument
	// list of the call to f, a Lua closure made by load, an object whose __call metamethod calls f
	prebuilt := func(k int) rt.Value {
		o := h.Call(glue.Values[k], fn.v)
		if o.Err != nil || o.Panic != nil || len(o.Values) != 1 {
			return rt.NilValue
		}
		return o.Values[0]
	}
	// one protected call of f inside a context requiring flags
	typeFn := h.R.GlobalEnv().Get(rt.StringValue("type"))
	var nameOrder uint64 // spelling 10: the order in which the required flags are named
	call := func(flags rt.ComplianceFlags, spelling int, args []rt.Value) (errS string, results []rt.Value, liveAfter bool, pan interface{}) {
		defer func() {
			if r := recover(); r != nil {
				pan = r
			}
		}()
		var pre rt.Value
		if spelling >= 4 && spelling <= 6 {
			pre = prebuilt(spelling - 4)
			if pre.IsNil() {
				spelling = 0
			}
		}
		outer := flags
		if spelling == 10 {
			outer = 0 // the requiring context is pushed by Lua code, see below
		}
		_, _ = th.CallContext(rt.RuntimeContextDef{RequiredFlags: outer}, func() error {
			term := rt.NewTerminationWith(nil, 0, true)
			var err error
			switch spelling {
			case 10: // the context is made by Lua code, the flags named in a list in some order
				var names []string // (spelled here, not with golua's own Names())
				for _, fl := range []struct {
					f rt.ComplianceFlags
					n string
				}{{rt.ComplyCpuSafe, "cpusafe"}, {rt.ComplyMemSafe, "memsafe"}, {rt.ComplyTimeSafe, "timesafe"}, {rt.ComplyIoSafe, "iosafe"}} {
					if flags&fl.f != 0 {
						names = append(names, fl.n)
					}
				}
				for i, x := len(names)-1, nameOrder; i > 0; i-- {
					j := int(x % uint64(i+1))
					x /= uint64(i + 1)
					names[i], names[j] = names[j], names[i]
				}
				err = rt.Call(th, glue.Values[3], append([]rt.Value{rt.StringValue(strings.Join(names, " ")), fn.v}, args...), term)
			case 4, 5, 6: // set up outside the context, finished inside it
				err = rt.Call(th, pre, args, term)
			case 7, 8, 9: // inside a nested context with limits (time; cpu and memory; flags only) of its own
				def := []rt.RuntimeContextDef{
					{HardLimits: rt.RuntimeResources{Millis: 100000}},
					{HardLimits: rt.RuntimeResources{Cpu: 10000000, Memory: 50000000}, SoftLimits: rt.RuntimeResources{Millis: 100000}},
					{RequiredFlags: rt.ComplyCpuSafe},
				}[spelling-7]
				_, err = th.CallContext(def, func() error { return rt.Call(th, fn.v, args, term) })
			case 0:
				err = rt.Call(th, fn.v, args, term)
			case 1: // through pcall
				pc := h.R.GlobalEnv().Get(rt.StringValue("pcall"))
				err = rt.Call(th, pc, append([]rt.Value{fn.v}, args...), term)
				if err == nil && len(term.Etc()) >= 2 && !rt.Truth(term.Etc()[0]) {
					s, _ := term.Etc()[1].ToString()
					err = fmt.Errorf("%s", s)
				}
			case 2: // as __index metamethod
				mt := rt.NewTable()
				mt.Set(rt.StringValue("__index"), fn.v)
				obj := rt.NewTable()
				obj.SetMetatable(mt)
				k := rt.StringValue("k")
				if len(args) > 0 && !args[0].IsNil() {
					k = args[0]
				}
				var v rt.Value
				v, err = rt.Index(th, rt.TableValue(obj), k)
				if err == nil {
					term.Push(h.R, v)
				}
			case 3: // through a coroutine created inside the context
				wr := h.R.GlobalEnv().Get(rt.StringValue("coroutine")).AsTable().Get(rt.StringValue("wrap"))
				w := rt.NewTerminationWith(nil, 1, false)
				err = rt.Call(th, wr, []rt.Value{fn.v}, w)
				if err == nil {
					err = rt.Call(th, w.Get(0), args, term)
				}
			}
			if err != nil {
				errS = err.Error()
			} else {
				results = append(results, term.Etc()...)
				// close returned file handles: waits for a process started by popen, flushes writes
				for _, r := range results {
					if r.Type() == rt.UserDataType {
						if cl, e := rt.Index(th, r, rt.StringValue("close")); e == nil && cl.Type() == rt.FunctionType {
							rt.Call(th, cl, []rt.Value{r}, rt.NewTerminationWith(nil, 0, true))
						}
					}
				}
			}
			// the context must still be live and able to run a fully compliant function
			t2 := rt.NewTerminationWith(nil, 1, false)
			if e2 := rt.Call(th, typeFn, []rt.Value{rt.IntValue(1)}, t2); e2 == nil && h.R.RuntimeContext().Status() == rt.StatusLive {
				liveAfter = true
			}
			return nil
		})
		return
	}
	// A first call where nothing is required (no arguments, so that functions with outside effects fail
	// on their argument checks): gating must not depend on what happened before.
	if !flagsNoWarmup[fn.path] {
		if _, _, _, pan := call(0, 0, nil); pan != nil {
			if _, ok := pan.(rt.ContextTerminationError); !ok {
				ctx.Fail("C08", "C08.P", "panic", "%s() panicked: %v", fn.path, pan)
				return
			}
		}
		if sen.changed() != "" {
			sen.reset()
		}
	}
	// D(f): probe with each single flag and no arguments
	declared := 0
	for b := 0; b < 4; b++ {
		errS, _, _, pan := call(flagSet(1<<b), 0, nil)
		if pan != nil {
			ctx.Fail("C08", "C08.P", "panic", "%s panicked while probing: %v", fn.path, pan)
			return
		}
		if !strings.Contains(errS, "missing flags") {
			declared |= 1 << b
		}
	}
	ctx.Sample = fmt.Sprintf("function %s declares %v", fn.path, flagSet(declared).Names())
	ctx.Trivial = false
	ctx.Shape = core.HashString(fn.path) ^ uint64(g.Choose(1<<20))
	grid := 0
	for bits := 1; bits < 16; bits++ {
		flags := flagSet(bits)
		for rep := 0; rep < 2; rep++ {
			args, adesc := mkArgs(rep == 0 && g.Chance(2, 3))
			spelling := g.Choose(10)
			// (decided from what the tape already chose, without drawing from it: replays recorded before
			// this spelling existed keep their meaning)
			if hsh := core.HashString(fmt.Sprintf("%s|%d|%d|%s", fn.path, bits, rep, adesc)); hsh%5 == 0 {
				spelling, nameOrder = 10, hsh>>16
				ctx.Count("calls in a context made by Lua code from a list of flag names", 1)
			}
			traced := tracer != nil && (bits&^declared != 0 || bits&8 != 0)
			if traced {
				tracer.begin()
			}
			errS, results, live, pan := call(flags, spelling, args)
			grid++
			where := fmt.Sprintf("%s(%s) spelling=%d required=%v declared=%v", fn.path, adesc, spelling, flags.Names(), flagSet(declared).Names())
			if traced {
				lines := tracer.end()
				if lines == nil {
					ctx.Count("probe.trace window unreadable", 1)
				} else {
					ctx.Count("traced call windows", 1)
					ctx.Count("system calls seen inside traced windows", int64(len(lines)))
					if kind, line := classifyTraced(lines, sen.dir); kind != "" {
						what := "in a context requiring iosafe"
						if bits&^declared != 0 {
							what = "although the call had to be refused"
						}
						ctx.Fail("C08", "C08.G3", "traced-"+kind+":"+fn.path, "the call reached the operating system %s: %s; %s", what, strings.TrimSpace(line), where)
						return
					}
				}
			}
			if pan != nil {
				if _, ok := pan.(rt.ContextTerminationError); !ok {
					ctx.Fail("C08", "C08.P", "panic", "Go panic: %v; %s", pan, where)
					return
				}
			}
			if strings.Contains(fn.path, "popen") || strings.Contains(fn.path, "execute") {
				sen.settle() // (after the traced window has been read: settling looks at the directory itself)
			}
			if ch := sen.changed(); ch != "" {
				switch {
				case bits&^declared != 0:
					ctx.Fail("C08", "C08.G1", "effect-before-refusal:"+fn.path, "the sentinel directory changed (%s) although the call had to be refused; %s", ch, where)
					return
				case bits&8 != 0:
					ctx.Fail("C08", "C08.G2", "outside-effect:"+fn.path, "the sentinel directory changed (%s) in a context requiring iosafe; %s", ch, where)
					return
				}
				// a legitimate effect (iosafe not required): start again from a fresh sentinel
				ctx.Count("legitimate file-system effects (iosafe not required)", 1)
				sen.reset()
			}
			if bits&^declared != 0 {
				// G1: must be refused before running
				if !strings.Contains(errS, "missing flags") {
					// the wrapper spellings call other functions first (pcall, wrap, index): if those are
					// not allowed themselves the error is theirs, which is also a "missing flags" error.
					ctx.Fail("C08", "C08.G1", "not-gated:"+fn.path, "call was not refused with a 'missing flags' error (got %q, %d results); %s", errS, len(results), where)
					return
				}
				if !live {
					ctx.Fail("C08", "C08.G1", "context-not-live-after-refusal", "after the refused call the context could not run a compliant function; %s", where)
					return
				}
				ctx.Count("fault.required-flag-not-declared (gated calls)", 1)
			} else if bits&8 != 0 {
				// G2: declared iosafe and iosafe required: nothing from the outside may come back
				for _, r := range results {
					if s, ok := r.TryString(); ok && strings.Contains(s, sen.secret) {
						ctx.Fail("C08", "C08.G2", "secret-read:"+fn.path, "a function declared iosafe returned the content of a file of the sentinel directory; %s", where)
						return
					}
				}
				if strings.Contains(errS, sen.secret) {
					ctx.Fail("C08", "C08.G2", "secret-read:"+fn.path, "secret leaked through an error message; %s", where)
					return
				}
				ctx.Count("iosafe calls executed", 1)
			}
		}
	}
	ctx.Count("grid cells (function x flag subset x 2 argument tuples)", int64(grid))
	// many refusals in a row on one thread must leave the context able to run compliant functions
	if declared != 15 && g.Chance(1, 4) {
		missing := 15 &^ declared
		var errS string
		var live bool
		n := 1200 + g.Choose(400)
		func() {
			defer func() { recover() }()
			th.CallContext(rt.RuntimeContextDef{RequiredFlags: flagSet(missing)}, func() error {
				for i := 0; i < n; i++ {
					if err := rt.Call(th, fn.v, nil, rt.NewTerminationWith(nil, 0, true)); err != nil {
						errS = err.Error()
					} else {
						errS = "no error"
					}
					if !strings.Contains(errS, "missing flags") {
						break
					}
				}
				t2 := rt.NewTerminationWith(nil, 1, false)
				live = rt.Call(th, typeFn, []rt.Value{rt.IntValue(1)}, t2) == nil
				return nil
			})
		}()
		ctx.Count("fault.refusal storm (1200+ refusals on one thread)", 1)
		if !strings.Contains(errS, "missing flags") {
			ctx.Fail("C08", "C08.G1", "refusal-changes-after-many-calls", "after many refused calls of %s the refusal became %q", fn.path, errS)
			return
		}
		if !live {
			ctx.Fail("C08", "C08.G1", "context-not-live-after-refusal", "after %d refused calls of %s the context could not run a compliant function", n, fn.path)
			return
		}
	}
}

//go:build verif

package engines

import (
	"fmt"
	"strings"

	"vsim/core"
	"vsim/harness"
)

// E-CORO, self-differential half (DESIGN §4 C09): free-form coroutine scripts
// (no model).  Each script is executed under the natural schedule (all-zero
// schedule tape) and under the tape's schedule; the event logs and outcomes must
// be identical, no deadlock, no leaked goroutine, no crash; the race build adds
// "no data race".

func init() {
	core.Register(&core.Engine{Name: "corofree", Run: runCoroFree})
}

type luaGen struct {
	nfin        int
	b           strings.Builder
	t           *core.Tape
	ind         int
	nco         int // number of coroutines (C1..Cn) and wrappers (W1..Wn)
	ntbc        int
	depth       int
	budget      int
	feat        map[string]bool
	inCo        bool
	noCoInClose bool
}

func (g *luaGen) line(format string, args ...interface{}) {
	g.b.WriteString(strings.Repeat("  ", g.ind))
	fmt.Fprintf(&g.b, format, args...)
	g.b.WriteByte('\n')
}

func (g *luaGen) val() string {
	switch g.t.Weighted(4, 2, 1, 1, 1, 1) {
	case 0:
		return fmt.Sprint(g.t.Choose(5))
	case 1:
		return fmt.Sprintf("%q", "s"+fmt.Sprint(g.t.Choose(3)))
	case 2:
		return "nil"
	case 3:
		return "true"
	case 4:
		return "false"
	default:
		return fmt.Sprintf("{id=%d}", 100+g.t.Choose(5))
	}
}

func (g *luaGen) vals() string {
	n := g.t.Weighted(3, 3, 2, 1)
	var p []string
	for i := 0; i < n; i++ {
		p = append(p, g.val())
	}
	return strings.Join(p, ", ")
}

func (g *luaGen) co() int { return 1 + g.t.Choose(g.nco) }

// coOp emits one coroutine operation (usable from main and from bodies).
func (g *luaGen) coOp() {
	k := g.co()
	switch g.t.Weighted(6, 3, 2, 2, 1, 1, 1) {
	case 0:
		g.line(`emit("r%d", coroutine.resume(C%d%s))`, k, k, prefixComma(g.vals()))
	case 1:
		g.line(`emit("w%d", pcall(W%d%s))`, k, k, prefixComma(g.vals()))
	case 2:
		g.line(`emit("st%d", coroutine.status(C%d))`, k, k)
	case 3:
		g.feat["close"] = true
		g.line(`emit("cl%d", pcall(coroutine.close, C%d))`, k, k)
	case 4:
		g.line(`emit("run", select(2, coroutine.running()), coroutine.isyieldable())`)
	case 5:
		g.line(`emit("eq%d", coroutine.running() == C%d)`, k, k)
	case 6:
		g.feat["wrapdirect"] = true
		g.line(`emit("wd%d", pcall(function() return W%d(%s) end))`, k, k, g.vals())
	}
}

func prefixComma(s string) string {
	if s == "" {
		return ""
	}
	return ", " + s
}

func (g *luaGen) stmt() {
	g.budget--
	if g.budget < 0 {
		g.line(`emit("x")`)
		return
	}
	w := []int{5, 5, 0, 0, 0, 0, 0, 0, 0, 0}
	if g.inCo {
		w[2] = 5 // yield
	}
	if g.depth < 3 {
		w[3] = 2 // pcall block
		w[4] = 2 // loop
		w[8] = 1 // callcontext
	}
	w[5] = 2 // tbc
	w[6] = 1 // error
	w[7] = 1 // return
	w[9] = 1 // do-block
	if g.nfin < 2 && g.t.Chance(1, 12) {
		// a finaliser that uses coroutines itself (runs when its context or the runtime is closed)
		g.nfin++
		g.feat["finaliser-with-coroutines"] = true
		g.line(`fin(%d)`, g.nfin)
		return
	}
	switch g.t.Weighted(w...) {
	case 0:
		g.line(`emit("e%d"%s)`, g.t.Choose(10), prefixComma(g.vals()))
	case 1:
		g.coOp()
	case 2:
		g.line(`emit("y", coroutine.yield(%s))`, g.vals())
	case 3:
		g.feat["pcall"] = true
		g.line(`emit("p", pcall(function()`)
		g.block(1 + g.t.Choose(3))
		g.line(`end))`)
	case 4:
		g.line(`for i = 1, %d do`, 1+g.t.Choose(3))
		g.block(1 + g.t.Choose(2))
		g.line(`end`)
	case 5:
		g.ntbc++
		g.feat["tbc"] = true
		mode := 0
		if !g.noCoInClose && g.t.Chance(1, 8) {
			mode = 1 + g.t.Choose(3)
			g.feat["coop-in-close"] = true
		}
		if g.t.Chance(1, 10) {
			mode = 4
			g.feat["close-raises"] = true
		}
		if g.inCo && g.t.Chance(1, 8) {
			mode = 5
			g.feat["close-yields"] = true
		}
		g.line(`local x%d <close> = mkc(%d, %d, %d)`, g.ntbc, g.ntbc, mode, g.co())
	case 6:
		g.feat["error"] = true
		g.line(`error(%s)`, g.val())
	case 7:
		g.line(`do return %s end`, g.vals())
	case 8:
		g.feat["callcontext"] = true
		kind := "cpu"
		amt := 50 + g.t.Choose(8)*150
		if g.t.Chance(1, 2) {
			kind = "memory"
			amt = 3000 + g.t.Choose(8)*4000
			g.feat["memlimit"] = true
		} else {
			g.feat["cpulimit"] = true
		}
		g.line(`do local ctx = runtime.callcontext({kill={%s=%d}}, function()`, kind, amt)
		g.block(1 + g.t.Choose(3))
		g.line(`end) emit("cc", ctx.status) end`)
	case 9:
		g.line(`do`)
		g.block(1 + g.t.Choose(2))
		g.line(`end`)
	}
}

func (g *luaGen) block(n int) {
	g.ind++
	g.depth++
	for i := 0; i < n; i++ {
		g.stmt()
	}
	g.depth--
	g.ind--
}

const coroPrelude = `local function mkc(k, mode, j)
  return setmetatable({id=k}, {__close=function(o, e)
    emit("close", k, e)
    if mode == 1 then emit("cr", coroutine.resume(_G["C"..j]))
    elseif mode == 2 then emit("cw", pcall(_G["W"..j]))
    elseif mode == 3 then emit("cst", coroutine.status(_G["C"..j]), pcall(coroutine.close, _G["C"..j]))
    elseif mode == 4 then error("closeerr"..k)
    elseif mode == 5 then emit("cy", pcall(coroutine.yield, "in-close" .. k)) end
  end})
end
FIN = {}
local function fin(k)
  FIN[#FIN + 1] = setmetatable({}, {__gc = function()
    local co = coroutine.wrap(function(a) local b = coroutine.yield(a + 1) return b * 2 end)
    local x, y = co(1), co(5)
    local c2 = coroutine.create(function() coroutine.yield() end)
    coroutine.resume(c2)
    emit("fin", k, x, y, coroutine.status((coroutine.running())), coroutine.status(c2), coroutine.close(c2), coroutine.status(c2))
  end})
end
`

// finOK checks the events emitted by finalisers that use coroutines (they run in the runtime's own
// finaliser thread): the values are fixed by construction.
func finOK(events []string) string {
	for _, e := range events {
		if strings.HasPrefix(e, `emit "fin" `) && !strings.HasSuffix(e, ` 2 10 "running" "suspended" true "dead"`) {
			return e
		}
	}
	return ""
}

// genCoroScript generates a free-form coroutine script.
func genCoroScript(t *core.Tape, noCoInClose bool) (string, map[string]bool) {
	g := &luaGen{t: t, feat: map[string]bool{}, noCoInClose: noCoInClose}
	g.nco = 1 + t.Choose(3)
	g.budget = 12 + t.Choose(30)
	if coroBig {
		g.nco = 1 + t.Choose(5)
		g.budget = 12 + t.Choose(100)
	}
	g.b.WriteString(coroPrelude)
	for k := 1; k <= g.nco; k++ {
		g.line(`F%d = function(...)`, k)
		g.inCo = true
		g.ind++
		g.line(`emit("in%d", ...)`, k)
		g.ind--
		g.block(1 + t.Choose(5))
		g.line(`end`)
		g.inCo = false
	}
	for k := 1; k <= g.nco; k++ {
		g.line(`C%d = coroutine.create(F%d)`, k, k)
		g.line(`W%d = coroutine.wrap(F%d)`, k, k)
	}
	wrapMem := t.Chance(1, 3)
	if wrapMem {
		g.feat["memlimit"] = true
		g.line(`local ctx = runtime.callcontext({kill={memory=%d}}, function()`, 200000+t.Choose(4)*100000)
		g.ind++
	}
	n := 2 + t.Choose(10)
	for i := 0; i < n; i++ {
		if t.Chance(1, 4) {
			g.stmt()
		} else {
			g.coOp()
		}
	}
	if wrapMem {
		g.ind--
		g.line(`end)`)
		g.line(`emit("outer", ctx.status)`)
	}
	g.line(`emit("end")`)
	return g.b.String(), g.feat
}

// execScript runs src under a scheduler drawing from sch and returns the log,
// the outcome and the scheduler (for its counters).
func execScript(src string, sch *core.Tape, maxSteps int) (events []string, outcome string, leak string, st core.SchedStats) {
	s := core.NewSched(sch, maxSteps)
	log := core.GetLog()
	defer core.PutLog(log)
	s.Begin()
	h := harness.NewHost(s, log)
	out := h.Run("sim", src)
	leak = s.Drain()
	outcome = out.String()
	if log.Overflow {
		outcome += " LOGOVERFLOW"
	}
	events = log.Events()
	// after the verdict data has been taken: close what is left suspended so that
	// goroutines and the runtime can be reclaimed
	s.Reap(h.R.MainThread())
	if pan := h.Close(); pan != nil {
		outcome += fmt.Sprintf(" CLOSEPANIC(%v)", pan)
	}
	if bad := finOK(log.Events()); bad != "" {
		outcome += " FINFAIL(" + bad + ")"
	}
	if l2 := s.End(); leak == "" {
		leak = l2
	}
	st = s.Stats()
	s.Release()
	return events, outcome, leak, st
}

func featList(f map[string]bool) string {
	var ks []string
	for k := range f {
		ks = append(ks, k)
	}
	sortStrings(ks)
	return strings.Join(ks, ",")
}

// execScriptFree runs src with no scheduler at all: the Go runtime decides who runs (worker processes
// of this mode never install a scheduler).  A cross-check that the hook model hides nothing: a lock or
// hand-off added to golua without a hook, or a race the serialised runs cannot produce.
func execScriptFree(src string) ([]string, string) {
	log := &core.Log{}
	h := harness.NewHost(nil, log)
	out := h.Run("sim", src)
	ev := log.Events()
	outcome := out.String()
	if pan := h.Close(); pan != nil {
		outcome += fmt.Sprintf(" CLOSEPANIC(%v)", pan)
	}
	if bad := finOK(log.Events()); bad != "" {
		outcome += " FINFAIL(" + bad + ")"
	}
	return ev, outcome
}

// coroBig widens the size ranges of the generated scripts (thorough tier).
var coroBig bool

func runCoroFree(ctx *core.RunCtx) {
	coroBig = ctx.Tier == "thorough"
	if ctx.Mode == "free" {
		src, feat := genCoroScript(ctx.Gen, false)
		ctx.Sample = src
		ev0, out0 := execScriptFree(src)
		ev1, out1 := execScriptFree(src)
		ctx.Trivial = false
		ctx.Shape = core.HashString(src)
		ctx.Count("free-running executions", 2)
		fl := featList(feat)
		if strings.Contains(out0, "PANIC") && !strings.Contains(out0, "PANIC(TERMINATION") {
			ctx.Fail("C09", "C09.P", "panic", "Go panic escaped (free-running): %s {%s}", out0, fl)
			return
		}
		if strings.Contains(out0, "FINFAIL") {
			ctx.Fail("C09", "C09.F", "coroutines-in-finaliser", "coroutine operations inside a finaliser misbehave: %s {%s}", out0, fl)
			return
		}
		if out0 != out1 || firstDiff(ev0, ev1) >= 0 {
			d := firstDiff(ev0, ev1)
			ctx.Fail("C09", "C09.S1", "free-runs-differ", "two free-running executions of the same script differ: outcome %s vs %s, first log difference #%d %q vs %q {%s}", out0, out1, d, at(ev0, d), at(ev1, d), fl)
		}
		return
	}
	src, feat := genCoroScript(ctx.Gen, false)
	ctx.Sample = src
	zero := core.ReplayTape(nil)
	ev0, out0, leak0, s0 := execScript(src, zero, 2000000)
	ev1, out1, leak1, s1 := execScript(src, ctx.Sch, 2000000)
	ctx.Count("sched.steps", int64(s1.Steps))
	ctx.Count("sched.decisions", int64(s1.Switches))
	ctx.Count("fault.handoff-order(non-default decisions)", int64(s1.NonDefault))
	ctx.Count("sched.tasks", int64(s1.Tasks))
	ctx.Count("probe.tail-vs-head windows", int64(s1.TailHeadRace))
	for f := range feat {
		ctx.Count("feature."+f, 1)
	}
	_ = s0
	ctx.Trivial = s1.NonDefault == 0
	ctx.Shape = core.HashString(src) ^ s1.SchedHash
	ctx.LogHash = core.HashStrings(ev1) ^ core.HashString(out1)
	fl := featList(feat)
	if leak0 != "" {
		ctx.Fail("C09", "C09.V7", "leak", "leaked goroutine under the natural schedule: %s {%s}", leak0, fl)
		return
	}
	if leak1 != "" {
		ctx.Fail("C09", "C09.V7", "leak", "leaked goroutine: %s {%s}", leak1, fl)
		return
	}
	// A termination escaping to the host (context left on the runtime's stack by a
	// coroutine that yielded inside callcontext) is not C09's business: it is only
	// compared between the two schedules like any other outcome.
	if strings.Contains(out0, "PANIC") && !strings.Contains(out0, "PANIC(TERMINATION") || strings.Contains(out1, "PANIC") && !strings.Contains(out1, "PANIC(TERMINATION") {
		ctx.Fail("C09", "C09.P", "panic", "Go panic escaped: %s / %s {%s}", out0, out1, fl)
		return
	}
	if strings.Contains(out0, "FINFAIL") || strings.Contains(out1, "FINFAIL") {
		ctx.Fail("C09", "C09.F", "coroutines-in-finaliser", "coroutine operations inside a finaliser misbehave: %s / %s {%s}", out0, out1, fl)
		return
	}
	if out0 != out1 {
		ctx.Fail("C09", "C09.S1", "outcome-depends-on-schedule", "outcome differs between schedules: natural=%s tape=%s {%s}", out0, out1, fl)
		return
	}
	if d := firstDiff(ev0, ev1); d >= 0 {
		ctx.Fail("C09", "C09.S1", "log-depends-on-schedule", "event logs differ at #%d between the natural schedule and the tape schedule: %q vs %q {%s}", d, at(ev0, d), at(ev1, d), fl)
		return
	}
}

func firstDiff(a, b []string) int {
	n := len(a)
	if len(b) < n {
		n = len(b)
	}
	for i := 0; i < n; i++ {
		if a[i] != b[i] {
			return i
		}
	}
	if len(a) != len(b) {
		return n
	}
	return -1
}

func at(a []string, i int) string {
	if i < len(a) {
		return a[i]
	}
	return "<end>"
}

//go:build verif

package engines

import (
	"fmt"
	"strings"
)

// Reference interpreter of SimLua, written from the Lua 5.4 manual (§2.5 error
// handling, §2.6 coroutines, §3.3.8 to-be-closed variables, §6.1/§6.2).  Model
// coroutines run on goroutines of their own with synchronous hand-off, so the
// interpreter stays direct-style.  Lua errors are Go panics carrying *luaErr.

type luaErr struct {
	v       mval
	handled bool // already passed through an xpcall message handler
}

// coCloseSig unwinds a coroutine that is being closed (coroutine.close while it is suspended).  The
// lexical blocks it passes through do not run their handlers: every value still pending in the
// coroutine is closed, in reverse order, when the signal reaches the top of the coroutine (closeAll).
// err is the error in flight when the coroutine was already dying of an uncaught error and was closed
// while suspended inside one of the handlers run for that.
type coCloseSig struct{ err *luaErr }
type modelAbort struct{}

type ctlKind byte

const (
	cNone ctlKind = iota
	cBreak
	cGoto
	cReturn
)

type ctl struct {
	k     ctlKind
	label string
	vals  []mval
}

type xfer struct {
	kind string // resume, close, abort | yield, return, error
	vals []mval
	err  mval
}

type mco struct {
	status  string // suspended, running, normal, dead
	fn      *funcDef
	in      chan xfer
	out     chan xfer
	start   bool
	prot    []*protFrame // protected-call boundaries inside this coroutine
	cerr    *mval        // error the coroutine died with
	cstack  []mval       // every pending to-be-closed value of the coroutine, innermost last
	closing bool         // coroutine.close is emptying cstack: the handlers cannot yield
}

type protFrame struct {
	handler *mval // xpcall message handler
}

type menv struct {
	locals map[string]*mval
	vararg []mval
	parent *menv
	// function-level environments only
	isFn       bool
	callerLine int // line a level-2 error of this function is attributed to (0: the caller is not Lua code)
	cdepth     int // pending to-be-closed values of the coroutine when the function was entered
}

// fn returns the environment of the enclosing function.
func (e *menv) fn() *menv {
	x := e
	for x.parent != nil && !x.isFn {
		x = x.parent
	}
	return x
}

func (e *menv) lookup(n string) *mval {
	for x := e; x != nil; x = x.parent {
		if v, ok := x.locals[n]; ok {
			return v
		}
	}
	return nil
}

// probePlan: which probe invocation (1-based ordinal) raises which value.
type probePlan map[int64]mval

type interp struct {
	prog    *program
	funcs   map[string]*funcDef
	globals map[string]mval
	events  []string
	cur     *mco // nil = main
	mainCo  *mco
	probes  int64
	plan    probePlan
	steps   int
	cos     []*mco
	fired   int
	feat    map[string]bool
	aborted bool
}

func newInterp(p *program, plan probePlan) *interp {
	m := &interp{prog: p, funcs: map[string]*funcDef{}, globals: map[string]mval{}, plan: plan, feat: map[string]bool{}}
	for _, f := range p.funcs {
		m.funcs[f.name] = f
		m.globals[f.name] = mval{k: vFn, s: f.name}
	}
	m.mainCo = &mco{status: "running"}
	m.cur = m.mainCo
	return m
}

func strv(s string) mval { return mval{k: vStr, s: s} }
func boolv(b bool) mval {
	if b {
		return mval{k: vBool, i: 1}
	}
	return mval{k: vBool}
}
func intv(i int64) mval { return mval{k: vInt, i: i} }

func (m *interp) emit(tag string, vals []mval) {
	parts := []string{"emit", fmt.Sprintf("%q", tag)}
	for _, v := range vals {
		parts = append(parts, v.canon())
	}
	m.events = append(m.events, strings.Join(parts, " "))
}

// raise throws a Lua error from the current point.  If the innermost protected
// boundary of the running coroutine is an xpcall, its message handler runs here,
// at the point of the error, and its first result replaces the error value.
func (m *interp) raise(v mval) {
	m.throw(&luaErr{v: v})
}

func (m *interp) throw(e *luaErr) {
	if !e.handled {
		pr := m.cur.prot
		if n := len(pr); n > 0 && pr[n-1].handler != nil {
			h := *pr[n-1].handler
			e.handled = true
			m.feat["msg-handler"] = true
			res := m.call(h, []mval{e.v}, 0, 0)
			if len(res) > 0 {
				e.v = res[0]
			} else {
				e.v = mval{}
			}
		}
	}
	panic(e)
}

// run executes the main chunk; returns outcome string like harness.Outcome.
func (m *interp) run() (outcome string) {
	defer func() {
		if r := recover(); r != nil {
			switch x := r.(type) {
			case *luaErr:
				outcome = "error(" + x.v.canon() + ")"
			default:
				panic(r)
			}
		}
		m.abortAll()
	}()
	env := &menv{locals: map[string]*mval{}, isFn: true}
	c := m.execBlock(m.prog.main, env)
	vals := []string{}
	if c.k == cReturn {
		for _, v := range c.vals {
			vals = append(vals, v.canon())
		}
	}
	return "return(" + strings.Join(vals, ",") + ")"
}

// abortAll ends the goroutines of model coroutines that are still suspended.
func (m *interp) abortAll() {
	m.aborted = true
	for _, co := range m.cos {
		if co.status == "suspended" && co.start {
			co.in <- xfer{kind: "abort"}
			<-co.out
		}
		co.status = "dead"
	}
}

func (m *interp) execBlock(b []*stmt, env *menv) (c ctl) {
	scope := &menv{locals: map[string]*mval{}, parent: env, vararg: nil}
	var pending []mval
	co := m.cur
	defer func() {
		r := recover()
		var inflight *luaErr
		if r != nil {
			switch x := r.(type) {
			case *luaErr:
				inflight = x
			case coCloseSig:
				// the values of this block stay on the coroutine's stack: closeAll deals with them
				panic(r)
			default:
				panic(r)
			}
		}
		for i := len(pending) - 1; i >= 0; i-- {
			v := pending[i]
			co.cstack = co.cstack[:len(co.cstack)-1]
			if !v.truthy() {
				continue
			}
			func() {
				defer func() {
					if r2 := recover(); r2 != nil {
						switch x := r2.(type) {
						case *luaErr:
							inflight = x
						case coCloseSig:
							// closed while suspended inside this handler: the error in flight stays in flight
							// for the handlers still to run
							if x.err == nil && inflight != nil {
								x.err = inflight
							}
							panic(x)
						default:
							panic(r2)
						}
					}
				}()
				ev := mval{}
				if inflight != nil {
					ev = inflight.v
				}
				m.callClose(v, ev)
			}()
		}
		if inflight != nil {
			panic(inflight)
		}
	}()
	for i := 0; i < len(b); i++ {
		s := b[i]
		c = m.exec(s, scope, &pending)
		if c.k == cGoto {
			// a label in this block?
			found := false
			for j, t := range b {
				if t.k == sLabel && t.name == c.label {
					// forward gotos only leave nested blocks; a backward goto ("continue"
					// style) never jumps into the scope of a local in the generator's output
					i = j
					found = true
					break
				}
			}
			if found {
				c = ctl{}
				continue
			}
			return c
		}
		if c.k != cNone {
			return c
		}
	}
	return ctl{}
}

func (m *interp) callClose(v mval, errv mval) {
	t := v.ref.(*mtable)
	if t.stripped {
		// no handler any more: that is an error raised in place of the handler, the other pending
		// values are still closed
		m.feat["close-handler-lost"] = true
		m.raise(strv("sim:?: ERR"))
	}
	m.emit("close", []mval{intv(t.id), errv})
	m.feat["close-handler"] = true
	switch t.closeMode {
	case 1:
		m.feat["close-raises"] = true
		m.raise(strv(fmt.Sprintf("sim:%d: ce%d", simCloseRaiseLine, t.id)))
	case 2:
		m.call(m.globals[fmt.Sprintf("F%d", t.closeArg)], nil, 8, 8)
	}
}

func (m *interp) lineErr(line int, msg string) mval {
	return strv(fmt.Sprintf("sim:%d: %s", line, msg))
}

func (m *interp) exec(s *stmt, env *menv, pending *[]mval) ctl {
	m.steps++
	if m.steps > 200000 {
		panic("model: step budget exceeded")
	}
	switch s.k {
	case sEmit:
		m.emit(s.tag, m.evalList(s.exps, env, s.line))
	case sProbe:
		m.probe(s.n, s.line)
	case sAssignG:
		m.globals[s.name] = m.eval1(s.exps[0], env, s.line)
	case sLocal:
		v := m.eval1(s.exps[0], env, s.line)
		env.locals[s.name] = &v
	case sAssignL:
		v := m.eval1(s.exps[0], env, s.line)
		if p := env.lookup(s.name); p != nil {
			*p = v
		} else {
			m.globals[s.name] = v
		}
	case sLocalClose:
		v := m.eval1(s.exps[0], env, s.line)
		if v.truthy() && !(v.k == vTbl && v.ref.(*mtable).closable) {
			m.feat["nonclosable"] = true
			m.raise(m.lineErr(s.line, "ERR"))
		}
		env.locals[s.name] = &v
		*pending = append(*pending, v)
		m.cur.cstack = append(m.cur.cstack, v)
		m.feat["tbc"] = true
	case sDo:
		return m.execBlock(s.body, env)
	case sIf:
		if m.eval1(s.exps[0], env, s.line).truthy() {
			return m.execBlock(s.body, env)
		} else if s.els != nil {
			return m.execBlock(s.els, env)
		}
	case sFor:
		for i := int64(1); i <= s.n; i++ {
			loopEnv := &menv{locals: map[string]*mval{}, parent: env}
			iv := intv(i)
			loopEnv.locals[s.name] = &iv
			c := m.execBlock(s.body, loopEnv)
			if c.k == cBreak {
				break
			}
			if c.k != cNone {
				return c
			}
		}
	case sForIn:
		// the closing value is a to-be-closed variable of a scope around the loop
		m.feat["for-closing-value"] = true
		hidden := &stmt{k: sLocalClose, name: "(for state)", exps: s.exps, line: s.line}
		loop := &stmt{k: sFor, name: s.name, n: s.n, body: s.body, line: s.line, end: s.end}
		return m.execBlock([]*stmt{hidden, loop}, env)
	case sWhile:
		for {
			g := m.globals[s.name]
			if !(g.k == vInt && g.i < s.n) {
				break
			}
			m.globals[s.name] = intv(g.i + 1)
			c := m.execBlock(s.body, env)
			if c.k == cBreak {
				break
			}
			if c.k != cNone {
				return c
			}
		}
	case sBreak:
		return ctl{k: cBreak}
	case sGoto:
		return ctl{k: cGoto, label: s.name}
	case sLabel:
	case sReturn:
		if len(s.exps) == 1 && s.exps[0].k == eCall {
			if root := env.fn(); root.isFn && len(m.cur.cstack) == root.cdepth {
				// a tail call: the callee takes the place of this function, also for level-2 positions
				e := s.exps[0]
				f := m.eval1(e.fn, env, s.line)
				args := m.evalList(e.args, env, s.line)
				return ctl{k: cReturn, vals: m.call(f, args, s.line, root.callerLine)}
			}
		}
		return ctl{k: cReturn, vals: m.evalList(s.exps, env, s.line)}
	case sCallStmt:
		m.evalMulti(s.exps[0], env, s.line)
	case sStrip:
		if p := env.lookup(s.name); p != nil && p.k == vTbl && p.ref != nil {
			p.ref.(*mtable).stripped = true
		}
	case sError:
		v := m.eval1(s.exps[0], env, s.line)
		if v.k == vStr && s.level == 1 {
			v = m.lineErr(s.line, v.s)
		}
		if v.k == vStr && s.level == 2 {
			m.feat["error-level-2"] = true
			if cl := env.fn().callerLine; cl > 0 {
				v = m.lineErr(cl, v.s)
			}
		}
		m.feat["error"] = true
		m.raise(v)
	case sStorm:
		m.feat["error-storm"] = true
	case sRtErr:
		m.feat["rterr"] = true
		switch s.n {
		case 11: // metamethods raising at level 2: the position is that of the code that triggered them
			m.feat["metamethod-error"] = true
			m.raise(m.lineErr(s.line, "m901"))
		case 12:
			m.feat["metamethod-error"] = true
			m.raise(m.lineErr(s.line, "m902"))
		case 13, 14: // a table raised by an arithmetic metamethod arrives as it is
			m.feat["metamethod-error"] = true
			m.raise(mval{k: vTbl, i: 903})
		case 15:
			m.feat["metamethod-error"] = true
			m.raise(m.lineErr(s.line, "m904"))
		case 16:
			m.feat["metamethod-error"] = true
			m.raise(m.lineErr(simMTLine, "m905"))
		case 17:
			m.feat["metamethod-error"] = true
			m.raise(mval{})
		case 18:
			m.feat["hook-error"] = true
			m.raise(mval{k: vTbl, i: 906})
		}
		m.raise(m.lineErr(s.line, "ERR"))
	}
	return ctl{}
}

func (m *interp) probe(k int64, line int) {
	m.probes++
	if v, ok := m.plan[m.probes]; ok {
		m.fired++
		m.feat["probe-fired"] = true
		if v.k == vStr {
			v = m.lineErr(line, v.s)
		} else if v.k == vTbl {
			v = mval{k: vTbl, ref: &mtable{id: v.i}}
		}
		m.raise(v)
	}
}

func (m *interp) eval1(e *expr, env *menv, line int) mval {
	vs := m.evalMulti(e, env, line)
	if len(vs) == 0 {
		return mval{}
	}
	return vs[0]
}

// evalList evaluates an expression list; the last expression is expanded.
func (m *interp) evalList(es []*expr, env *menv, line int) []mval {
	var out []mval
	for i, e := range es {
		if i == len(es)-1 {
			out = append(out, m.evalMulti(e, env, line)...)
		} else {
			out = append(out, m.eval1(e, env, line))
		}
	}
	return out
}

func (m *interp) evalMulti(e *expr, env *menv, line int) []mval {
	switch e.k {
	case eConst:
		return []mval{e.v}
	case eGlobal:
		return []mval{m.globals[e.name]}
	case eLocal:
		if p := env.lookup(e.name); p != nil {
			return []mval{*p}
		}
		return []mval{m.globals[e.name]}
	case eFnRef:
		if v, ok := m.globals[e.name]; ok {
			return []mval{v}
		}
		return []mval{{k: vFn, s: e.name}} // library function
	case eNewTbl:
		return []mval{{k: vTbl, ref: &mtable{id: e.n}}}
	case eMkc:
		return []mval{{k: vTbl, ref: &mtable{id: e.n, closable: true, closeMode: int(e.args[0].v.i), closeArg: int(e.args[1].v.i)}}}
	case eVararg:
		for x := env; x != nil; x = x.parent {
			if x.vararg != nil {
				return x.vararg
			}
		}
		return nil
	case eEq:
		a, b := m.eval1(e.args[0], env, line), m.eval1(e.args[1], env, line)
		return []mval{boolv(a.k == b.k && a.i == b.i && a.s == b.s && a.ref == b.ref)}
	case eLt:
		a, b := m.eval1(e.args[0], env, line), m.eval1(e.args[1], env, line)
		if a.k != vInt || b.k != vInt {
			m.raise(m.lineErr(line, "ERR"))
		}
		return []mval{boolv(a.i < b.i)}
	case eAdd:
		a, b := m.eval1(e.args[0], env, line), m.eval1(e.args[1], env, line)
		if a.k != vInt || b.k != vInt {
			m.raise(m.lineErr(line, "ERR"))
		}
		return []mval{intv(a.i + b.i)}
	case eProbeVal:
		v := m.evalList(e.args, env, line)
		m.probe(e.n, line)
		return v
	case eCall:
		f := m.eval1(e.fn, env, line)
		args := m.evalList(e.args, env, line)
		return m.call(f, args, line, line)
	case eBuiltin:
		args := m.evalList(e.args, env, line)
		return m.builtin(e.name, args, line)
	}
	return nil
}

// call calls a function value.  line is the line of the call (for errors raised
// by the call machinery itself).
func (m *interp) call(f mval, args []mval, line int, callerLine int) []mval {
	switch f.k {
	case vFn:
		fd := m.funcs[f.s]
		if fd == nil {
			return m.builtin(f.s, args, line)
		}
		env := &menv{locals: map[string]*mval{}, isFn: true, callerLine: callerLine, cdepth: len(m.cur.cstack)}
		for i, p := range fd.params {
			v := mval{}
			if i < len(args) {
				v = args[i]
			}
			env.locals[p] = &v
		}
		env.vararg = []mval{}
		if fd.vararg && len(args) > len(fd.params) {
			env.vararg = append(env.vararg, args[len(fd.params):]...)
		}
		c := m.execBlock(fd.body, env)
		if c.k == cReturn {
			return c.vals
		}
		return nil
	case vWrap:
		co := f.ref.(*mco)
		ok, vals, errv := m.resume(co, args)
		if !ok {
			if errv.k == vStr && errv.s == "CANNOT-RESUME" {
				m.raise(m.lineErr(line, "CANNOT-RESUME"))
			}
			// coroutine.wrap propagates the error to the caller
			m.throw(&luaErr{v: errv})
		}
		return vals
	}
	m.raise(m.lineErr(line, "ERR"))
	return nil
}

func (m *interp) builtin(name string, args []mval, line int) []mval {
	arg := func(i int) mval {
		if i < len(args) {
			return args[i]
		}
		return mval{}
	}
	switch name {
	case "select#":
		return []mval{intv(int64(len(args)))}
	case "ismain":
		return []mval{boolv(m.cur == m.mainCo)}
	case "pcall", "xpcall":
		m.feat[name] = true
		pf := &protFrame{}
		fargs := args[1:]
		if name == "xpcall" {
			h := arg(1)
			pf.handler = &h
			if len(args) >= 2 {
				fargs = args[2:]
			} else {
				fargs = nil
			}
		}
		co := m.cur
		co.prot = append(co.prot, pf)
		depth := len(co.prot)
		var res []mval
		func() {
			defer func() {
				co.prot = co.prot[:depth-1]
				if r := recover(); r != nil {
					if le, ok := r.(*luaErr); ok {
						res = []mval{boolv(false), le.v}
						return
					}
					panic(r)
				}
			}()
			vals := m.call(arg(0), fargs, line, 0)
			res = append([]mval{boolv(true)}, vals...)
		}()
		return res
	case "coroutine.create", "coroutine.wrap":
		f := arg(0)
		if f.k != vFn {
			m.raise(m.lineErr(line, "ERR"))
		}
		co := &mco{status: "suspended", fn: m.funcs[f.s], in: make(chan xfer), out: make(chan xfer)}
		m.cos = append(m.cos, co)
		m.feat["coroutine"] = true
		if name == "coroutine.wrap" {
			return []mval{{k: vWrap, ref: co}}
		}
		return []mval{{k: vCo, ref: co}}
	case "coroutine.resume":
		c := arg(0)
		if c.k != vCo {
			m.raise(m.lineErr(line, "ERR"))
		}
		ok, vals, errv := m.resume(c.ref.(*mco), args[1:])
		if ok {
			return append([]mval{boolv(true)}, vals...)
		}
		return []mval{boolv(false), errv}
	case "coroutine.yield":
		if m.cur == m.mainCo || m.cur.closing {
			// (a coroutine that is being closed only runs its __close handlers, which cannot yield:
			// the closer gets control back when every pending value has been closed, not before)
			m.raise(m.lineErr(line, "ERR"))
		}
		return m.yield(args)
	case "coroutine.status":
		c := arg(0)
		if c.k != vCo {
			m.raise(m.lineErr(line, "ERR"))
		}
		co := c.ref.(*mco)
		st := co.status
		if co == m.cur {
			st = "running"
		}
		return []mval{strv(st)}
	case "coroutine.isyieldable":
		return []mval{boolv(m.cur != m.mainCo)}
	case "coroutine.close":
		c := arg(0)
		if c.k != vCo {
			m.raise(m.lineErr(line, "ERR"))
		}
		co := c.ref.(*mco)
		m.feat["co-close"] = true
		switch {
		case co == m.cur || co.status == "running" || co.status == "normal":
			m.raise(m.lineErr(line, "ERR"))
		case co.status == "dead":
			if co.cerr != nil {
				return []mval{boolv(false), *co.cerr}
			}
			return []mval{boolv(true)}
		}
		// suspended
		if !co.start {
			co.status = "dead"
			return []mval{boolv(true)}
		}
		prev := m.cur
		prev.status = "normal"
		co.status = "running"
		co.closing = true
		m.cur = co
		co.in <- xfer{kind: "close"}
		x := <-co.out
		m.cur = prev
		prev.status = "running"
		if x.kind == "yield" {
			// a handler yielded while the coroutine was being closed: golua hands control back to the
			// closer, which sees a successful close of a coroutine that is in fact suspended again
			m.feat["yield-while-closing"] = true
			co.status = "suspended"
			return []mval{boolv(true)}
		}
		co.status = "dead"
		if x.kind == "error" {
			e := x.err
			co.cerr = &e
			return []mval{boolv(false), x.err}
		}
		return []mval{boolv(true)}
	}
	panic("model: unknown builtin " + name)
}

// resume transfers control into co and waits for it to yield, return or fail.
func (m *interp) resume(co *mco, args []mval) (bool, []mval, mval) {
	if co == m.cur || co.status == "running" {
		return false, nil, strv("CANNOT-RESUME")
	}
	if co.status != "suspended" {
		return false, nil, strv("CANNOT-RESUME")
	}
	prev := m.cur
	prev.status = "normal"
	co.status = "running"
	m.cur = co
	if !co.start {
		co.start = true
		go m.coMain(co)
	}
	co.in <- xfer{kind: "resume", vals: args}
	x := <-co.out
	m.cur = prev
	prev.status = "running"
	switch x.kind {
	case "yield":
		co.status = "suspended"
		return true, x.vals, mval{}
	case "return":
		co.status = "dead"
		return true, x.vals, mval{}
	default:
		co.status = "dead"
		e := x.err
		co.cerr = &e
		return false, nil, x.err
	}
}

func (m *interp) coMain(co *mco) {
	first := <-co.in
	var out xfer
	func() {
		defer func() {
			if r := recover(); r != nil {
				switch x := r.(type) {
				case *luaErr:
					out = xfer{kind: "error", err: x.v}
				case coCloseSig:
					out = m.closeAll(co, x.err)
				case modelAbort:
					out = xfer{kind: "return"}
				default:
					out = xfer{kind: "error", err: strv(fmt.Sprint("MODEL-PANIC: ", r))}
				}
			}
		}()
		if first.kind != "resume" {
			out = xfer{kind: "return"}
			return
		}
		vals := m.call(mval{k: vFn, s: co.fn.name}, first.vals, 0, 0)
		out = xfer{kind: "return", vals: vals}
	}()
	co.out <- out
}

// closeAll closes every value still pending in a coroutine that is being closed, innermost first.
// An error raised by a handler replaces the one in flight; being closed again while suspended inside
// one of these handlers carries on with the rest.
func (m *interp) closeAll(co *mco, inflight *luaErr) (out xfer) {
	defer func() {
		if r := recover(); r != nil {
			if _, ok := r.(modelAbort); ok {
				out = xfer{kind: "return"}
				return
			}
			panic(r)
		}
	}()
	m.feat["co-close-pending"] = true
	for len(co.cstack) > 0 {
		v := co.cstack[len(co.cstack)-1]
		co.cstack = co.cstack[:len(co.cstack)-1]
		if !v.truthy() {
			continue
		}
		func() {
			defer func() {
				if r := recover(); r != nil {
					switch x := r.(type) {
					case *luaErr:
						inflight = x
					case coCloseSig:
						m.feat["co-close-inside-handler"] = true
						if x.err != nil {
							inflight = x.err
						}
					default:
						panic(r)
					}
				}
			}()
			ev := mval{}
			if inflight != nil {
				ev = inflight.v
			}
			m.callClose(v, ev)
		}()
	}
	if inflight != nil {
		return xfer{kind: "error", err: inflight.v}
	}
	return xfer{kind: "return"}
}

func (m *interp) yield(vals []mval) []mval {
	co := m.cur
	co.out <- xfer{kind: "yield", vals: vals}
	x := <-co.in
	switch x.kind {
	case "close":
		panic(coCloseSig{})
	case "abort":
		panic(modelAbort{})
	}
	return x.vals
}

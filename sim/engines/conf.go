//go:build verif

package engines

import (
	"fmt"
	"strings"

	rt "github.com/arnodel/golua/runtime"

	"vsim/core"
	"vsim/harness"
)

// E-CONF (DESIGN §4 C14): the same tape - program, fault plan, schedule - is
// executed by worker binaries built with each set of performance build tags; the
// canonical event log, results and error values must equal the default build's.
// This engine only produces the log; the supervisor compares the hashes across
// builds (core.crossBuild) and replays differences in both builds.
//
// mode "conf": programs may use quotas (CPU-limit kill as fault); mode "nort":
// programs never touch the runtime library (for the noquotas build); mode "snap":
// see snapStress.

func init() {
	core.Register(&core.Engine{Name: "conf", Run: runConf})
}

var poolStress = []string{
	// deep non-tail recursion then unwinding by error through many frames
	`local function deep(n) if n == 0 then error({id=%d}) end return 1 + deep(n - 1) end
emit("ps1", pcall(deep, %d))`,
	// tail recursion with closures outliving frames
	`local keep = {}
local function loop(n, acc) if n == 0 then return acc end local v = n keep[#keep + 1] = function() return v + %d end return loop(n - 1, acc + n) end
emit("ps2", loop(%d, 0), keep[1](), keep[#keep]())`,
	// coroutines abandoned mid-call
	`for i = 1, %d %% 7 + 2 do local co = coroutine.wrap(function(a) local x <close> = mkc(i) local t = {a, i} coroutine.yield(#t) error("never") end) emit("ps3", co(%d)) end`,
	// re-entrant calls from Go into Lua
	`local function f(n) if n == 0 then return "bottom" end return reenter(f, n - 1) end
emit("ps4", f(%d %% 20 + 1), %d)`,
	// many arguments and results (argument pools)
	`local function va(...) return select("#", ...), ... end
emit("ps5", va(table.unpack({1, 2, 3, 4, 5, 6, 7, 8, 9, 10, 11, 12}, 1, %d %% 12 + 1)), %d)`,
	// errors in handlers and in close handlers while unwinding
	`emit("ps6", pcall(function() local a <close> = setmetatable({}, {__close = function(_, e) emit("c1", e); error("in-close-%d") end}) local b <close> = mkc(%d) error("orig") end))`,
	// cells shared between closures after the frame is gone
	`local function counter() local c = %d %% 5 return function() c = c + 1 return c end, function() return c end end
local inc, get = counter() inc() inc() emit("ps7", get(), %d)`,
	// debug hooks inspecting the stack at call / return / tail-call time (the continuation pools must
	// not recycle a continuation the hook can still see)
	`do local function leaf(x) return x + %d end local function mid(x) local y = leaf(x) return y * 2 end local function tail(x) return mid(x) end
local seen = {} debug.sethook(function(ev) local info = debug.getinfo(2) seen[#seen + 1] = ev .. ":" .. tostring(info and info.name) .. ":" .. tostring(info and info.currentline) end, "cr")
local r = tail(%d) debug.sethook() emit("ps9", r, table.concat(seen, " ")) end`,
	// traceback from inside nested calls and from a coroutine
	`do local function a(n) if n == 0 then return (debug.traceback("tb", 1):gsub("0x%%x+", "PTR")) end return (a(n - 1)) end
emit("ps10", a(%d %% 6), %d) end`,
	// finalisers that only run when the runtime is closed (the values stay referenced): their order is
	// fixed by the marking order, including re-marking, whatever the pool implementation
	`do FIN = FIN or {} local function fz(tag) return {__gc = function(o) emit("fin", tag, o.id) end} end
for i = 1, %d %% 5 + 2 do FIN[#FIN + 1] = setmetatable({id = i}, fz("a")) end
local again = FIN[(%d %% #FIN) + 1] setmetatable(again, fz("b")) FIN[#FIN + 1] = setmetatable({id = 99}, fz("c")) emit("ps11", #FIN) end`,
	// a finaliser that re-arms itself once from inside __gc
	`do FIN = FIN or {} local mt mt = {__gc = function(o) o.n = o.n + 1 emit("fin", "rearm", o.id, o.n) if o.n < 2 + %d %% 2 then setmetatable(o, mt) end end}
FIN[#FIN + 1] = setmetatable({id = %d %% 7, n = 0}, mt) emit("ps12", #FIN) end`,
	// finalisers delivered in the middle of the run (at collect(), by the simulated collector) that look
	// at the main thread's stack: what the main thread "is running" must not be a continuation that has
	// already gone back to its pool
	`do local MAIN = coroutine.running()
local mt = {__gc = function(o) emit("peek", o.id, (debug.traceback(MAIN, "tb", 0):gsub("0x%%x+", "PTR"))) end}
local function mkg(n) for i = 1, n do setmetatable({id = i}, mt) end return n end
local function lvl(d) if d == 0 then mkg(%d %% 3 + 1) collect() return 0 end return 1 + lvl(d - 1) end
emit("ps13", lvl(%d %% 5)) end`,
	// frames abandoned by an error (never handed back to a pool) hold the only references to values with
	// finalisers: at the next collect() those values are garbage in every build - nothing a pool still
	// points to may keep them alive
	`do local mt = {__gc = function(o) emit("fin", "abandoned", o.id) end}
local function hold(d) local o = setmetatable({id = d}, mt) if d == 0 then error("unwind") end return hold(d - 1) + 1 end
emit("ps15", pcall(hold, %d %% 6 + 1)) collect() emit("ps15b", %d) end`,
	// garbage with finalisers that the collector only notices after the script has ended: the host lets
	// the collector run (hostcollect) and then closes the runtime, which must finalise what is pending
	`do local mt = {__gc = function(o) emit("fin", "left-behind", o.id) end}
local function mkg(n) for i = 1, n do setmetatable({id = i}, mt) end return n end
emit("ps16", mkg(%d %% 4 + 1), %d) end -- hostcollect`,
	// a function returns normally while a to-be-closed value has lost its __close: the error comes out of
	// the return itself, when the continuation is about to be handed back
	`emit("ps17", pcall(function() local x <close> = mkc(%d) getmetatable(x).__close = nil return %d end))`,
	// two userdata made by the host around Go values that may be equal (small integers: handles), each with
	// its own finaliser, still referenced when the runtime is closed: every one of them is finalised
	`do FIN = FIN or {} local a, b = mkv(%d %% 2, function() emit("fin", "va") end), mkv(%d %% 2, function() emit("fin", "vb") end)
FIN[#FIN + 1] = a FIN[#FIN + 1] = b emit("ps14", a == b) end`,
	// string building through pooled continuations
	`local parts = {} for i = 1, %d %% 30 + 1 do parts[#parts + 1] = tostring(i):rep(2) end emit("ps8", table.concat(parts, "-"), %d)`,
}

// mode "snap" (open finding, DESIGN 13.2): values still referenced when the runtime is closed whose
// metatable changed after they were marked, or whose finaliser compares its argument with the value
// the program holds.  The default finaliser pool hands a copy made at marking time to __gc; the other
// pool hands over the value itself.  Programs of this mode contain nothing else.
var snapStress = []string{
	`SNAP = SNAP or {} do local x = setmetatable({id = %d}, {__gc = function(o) emit("fin", "removed-metatable", o.id) end}) setmetatable(x, nil) SNAP[#SNAP + 1] = x emit("sn1", %d) end`,
	`SNAP = SNAP or {} do local y = setmetatable({id = %d}, {__gc = function(o) emit("fin", "replaced-metatable", o.id) end}) local mt2 = {} setmetatable(y, mt2) mt2.__gc = function(o) emit("fin", "current-metatable", o.id) end SNAP[#SNAP + 1] = y emit("sn2", %d) end`,
	`SNAP = SNAP or {} do local MT = {} local z = setmetatable({id = %d}, {__gc = function(o) emit("fin", "metatable-is-current", o.id, getmetatable(o) == MT) end}) setmetatable(z, MT) SNAP[#SNAP + 1] = z emit("sn3", %d) end`,
	`SNAP = SNAP or {} do local reg = {} local w w = setmetatable({id = %d}, {__gc = function(o) emit("fin", "identity", o.id, o == w, rawequal(o, w), reg[o]) end}) reg[w] = "per-object" SNAP[#SNAP + 1] = w emit("sn4", %d) end`,
}

func runConf(ctx *core.RunCtx) {
	g := ctx.Gen
	nort := strings.HasPrefix(ctx.Mode, "nort")
	snap := strings.HasPrefix(ctx.Mode, "snap")
	opts := richOpts{NoGC: true, AllowYield: true, NoYieldInProtected: true, NoRuntime: nort, NoCtx: nort || g.Chance(1, 2)}
	src, feat := genRich(g, opts)
	// splice pool-stress templates in front of the final emit
	extra := ""
	for i, n := 0, g.Choose(4); i < n && !snap; i++ {
		t := poolStress[g.Choose(len(poolStress))]
		a, b := 1+g.Choose(180), 1+g.Choose(180)
		extra += fmt.Sprintf(t, a, b) + "\n"
		ctx.Count("pool-stress templates", 1)
	}
	for i, n := 0, 1+g.Choose(3); i < n && snap; i++ {
		t := snapStress[g.Choose(len(snapStress))]
		extra += fmt.Sprintf(t, 1+g.Choose(180), 1+g.Choose(180)) + "\n"
		ctx.Count("finaliser-snapshot templates", 1)
	}
	src = strings.Replace(src, `emit("done", acc)`, extra+`emit("done", acc)`, 1)
	ctx.Sample = src
	limit := uint64(0)
	if !nort && g.Chance(1, 3) {
		limit = 200 + uint64(g.Choose(6000))
	}
	var ropts []rt.RuntimeOption
	if g.Chance(1, 3) {
		ropts = append(ropts, rt.WithRegSetMaxAge(uint([]int{0, 1, 10, 1000}[g.Choose(4)])))
		ctx.Count("fault.knob WithRegSetMaxAge", 1)
	}
	var col *collector
	hostCollect := strings.Contains(extra, "-- hostcollect")
	if strings.Contains(extra, "collect()") || hostCollect {
		// the Go finalizers of this run are delivered by the harness, all of them at collect()
		col = &collector{}
		rt.VerifSetFinalizerFunc(col.setFinalizer)
		defer rt.VerifSetFinalizerFunc(nil)
	}
	s := core.NewSched(ctx.Sch, 3000000)
	log := core.GetLog()
	defer core.PutLog(log)
	s.Begin()
	h := harness.NewHost(s, log, ropts...)
	if col != nil {
		h.Def("collect", func(t *rt.Thread, c *rt.GoCont) (rt.Cont, error) {
			col.barrier()
			for col.pending() > 0 {
				col.deliver(0)
				ctx.Count("fault.gc-deliver (finaliser made pending at collect())", 1)
			}
			return c.Next(), nil
		}, 0, false)
	}
	h.Def("reenter", func(t *rt.Thread, c *rt.GoCont) (rt.Cont, error) {
		// a host function calling back into Lua
		term := rt.NewTerminationWith(c, 0, true)
		if err := rt.Call(t, c.Arg(0), c.Etc(), term); err != nil {
			return nil, err
		}
		return c.PushingNext(t.Runtime, term.Etc()...), nil
	}, 1, true)
	h.Def("mkv", func(t *rt.Thread, c *rt.GoCont) (rt.Cont, error) {
		// a userdata around a Go value that is not a pointer
		k, _ := c.Arg(0).TryInt()
		meta := rt.NewTable()
		t.SetTable(meta, rt.StringValue("__gc"), c.Arg(1))
		return c.PushingNext1(t.Runtime, t.NewUserDataValue(k, meta)), nil
	}, 2, false)
	var out harness.Outcome
	status := ""
	if limit > 0 {
		var c rt.RuntimeContext
		c, out = h.RunInContext(rt.RuntimeContextDef{HardLimits: rt.RuntimeResources{Cpu: limit}}, "sim", src)
		if c != nil {
			status = c.Status().String()
			if c.Status() == rt.StatusKilled {
				ctx.Count("fault.kill-cpu", 1)
				ctx.Trivial = false
			}
		}
	} else {
		out = h.Run("sim", src)
	}
	leak := s.Drain()
	s.Reap(h.R.MainThread())
	if hostCollect {
		col.barrier()
		for col.pending() > 0 {
			col.deliver(0)
			ctx.Count("fault.gc-deliver (finaliser made pending after the script, before Close)", 1)
		}
	}
	h.Close() // finalisers of values still referenced run here: part of the log
	events := log.Events()
	s.End()
	st := s.Stats()
	s.Release()
	events = append(events, "outcome "+out.String(), "status "+status)
	ctx.Log = events
	ctx.LogHash = core.HashStrings(events)
	ctx.HashOut = true
	for f := range feat {
		ctx.Count("feature."+f, 1)
	}
	if st.NonDefault > 0 || extra != "" {
		ctx.Trivial = false
	}
	ctx.Shape = core.HashString(src) ^ st.SchedHash ^ limit
	if out.Panic != nil && !strings.Contains(out.String(), "TERMINATION") {
		ctx.Fail("C14", "C14.P", "panic", "Go panic escaped: %s", out.String())
		return
	}
	if leak != "" {
		ctx.Fail("C14", "C14.V7", "leak", "goroutine leaked: %s", leak)
	}
}

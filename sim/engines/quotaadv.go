//go:build verif && !noquotas

package engines

import (
	"fmt"
	"runtime"
	"strings"
	"time"

	rt "github.com/arnodel/golua/runtime"

	"vsim/core"
)

// Adversarial / amplification templates for C05 and C06 (DESIGN §4: K3, K6,
// M3).  Every program is `while true do pcall(function() <attempt> end) end`:
// unlimited it never ends, so under any limit the only legal outcome is
// 'killed', promptly, with bounded real allocation.  The attempts try to
// intercept the kill (pcall, handlers, coroutines, __close, __gc), to do
// unmetered work (library calls with huge size parameters) or to allocate
// without charging.

func init() {
	core.Register(&core.Engine{Name: "quotaadv", Run: runQuotaAdv})
}

type advTemplate struct {
	name string
	body func(g *core.Tape) string
}

func bigN(g *core.Tape) string {
	ns := []string{"1e3", "1e5", "1e6", "1e7", "1e8", "1e9", "1e10", "2^31", "2^40", "math.maxinteger // 2", "math.maxinteger"}
	return ns[g.Choose(len(ns))]
}

// liveLoop repeats op - something whose accounting should balance or grow - for ever while keeping
// 4000 more bytes alive each time round, and reports the size of what it holds: under limit M the
// report can never reach M.
func liveLoop(op string) string {
	return `local keep, n = {}, 0 while true do ` + op + ` n = n + 1 keep[n] = ("x"):rep(4000) if n % 10 == 0 then emit("len", n * 4000) end end`
}

var advTemplates = []advTemplate{
	{"spin", func(g *core.Tape) string { return `while true do end` }},
	{"spin-goto", func(g *core.Tape) string { return `::a:: goto a` }},
	{"spin-repeat", func(g *core.Tape) string { return `repeat local x = 1 until false` }},
	{"for-huge", func(g *core.Tape) string { return `for i = 1, math.maxinteger do end` }},
	{"pcall-spin", func(g *core.Tape) string { return `while true do pcall(function() while true do end end) end` }},
	{"pcall-error-loop", func(g *core.Tape) string { return `while true do pcall(error, "e") end` }},
	{"pcall-recursion", func(g *core.Tape) string { return `local function f() return (pcall(f)) end f()` }},
	{"lua-recursion", func(g *core.Tape) string { return `local function f(n) return 1 + f(n + 1) end f(1)` }},
	{"xpcall-handler-spin", func(g *core.Tape) string { return `xpcall(error, function() while true do end end)` }},
	{"xpcall-handler-raises", func(g *core.Tape) string {
		return `while true do xpcall(error, function(m) error(m) end, "x") end`
	}},
	{"xpcall-nested-handlers", func(g *core.Tape) string {
		return `local function h() xpcall(error, h) end xpcall(error, h)`
	}},
	{"coroutine-spin", func(g *core.Tape) string { return `coroutine.wrap(function() while true do end end)()` }},
	{"coroutine-storm", func(g *core.Tape) string {
		return `local keep = {} while true do local co = coroutine.wrap(function() coroutine.yield(1) end) co() keep[#keep + 1] = co end`
	}},
	{"coroutine-resume-loop", func(g *core.Tape) string {
		return `local co = coroutine.wrap(function() while true do coroutine.yield() end end) while true do co() end`
	}},
	{"coroutine-nested-pcall", func(g *core.Tape) string {
		return `coroutine.wrap(function() while true do pcall(coroutine.wrap(function() while true do end end)) end end)()`
	}},
	{"close-handler-spin", func(g *core.Tape) string {
		return `do local x <close> = setmetatable({}, {__close = function() while true do end end}) end`
	}},
	{"close-handler-after-kill", func(g *core.Tape) string {
		return `local x <close> = setmetatable({}, {__close = function() emit("close-ran") while true do pcall(string.rep, "x", 100) end end}) while true do end`
	}},
	{"close-in-coroutine-after-kill", func(g *core.Tape) string {
		return `coroutine.wrap(function() local x <close> = setmetatable({}, {__close = function() emit("close-ran") while true do end end}) while true do end end)()`
	}},
	{"close-in-coroutine-error", func(g *core.Tape) string {
		return `pcall(coroutine.wrap(function() local x <close> = setmetatable({}, {__close = function() while true do end end}) error("die") end))`
	}},
	{"close-coroutine-close", func(g *core.Tape) string {
		return `local co = coroutine.create(function() local x <close> = setmetatable({}, {__close = function() while true do end end}) coroutine.yield() end) coroutine.resume(co) coroutine.close(co)`
	}},
	{"gc-handler-spin", func(g *core.Tape) string {
		return `for i = 1, 50 do setmetatable({}, {__gc = function() emit("gc-ran") while true do end end}) end collectgarbage() while true do local t = {} end`
	}},
	{"tostring-spin", func(g *core.Tape) string {
		return `tostring(setmetatable({}, {__tostring = function() while true do end end}))`
	}},
	{"index-chain", func(g *core.Tape) string {
		return `local t = {} for i = 1, 1e7 do t = setmetatable({}, {__index = t}) end return t.x`
	}},
	{"index-function-spin", func(g *core.Tape) string {
		return `local t = setmetatable({}, {__index = function(t, k) while true do end end}) return t.x`
	}},
	{"call-metamethod-self", func(g *core.Tape) string { return `local t = {} setmetatable(t, {__call = t}) t()` }},
	{"index-function-recursion", func(g *core.Tape) string {
		return `local t = setmetatable({}, {__index = function(t, k) return t[k] end}) return t.x`
	}},
	{"len-metamethod-recursion", func(g *core.Tape) string {
		return `local t = setmetatable({}, {__len = function(t) return #t end}) return #t`
	}},
	{"tostring-recursion", func(g *core.Tape) string {
		return `local t t = setmetatable({}, {__tostring = function() return tostring(t) end}) return tostring(t)`
	}},
	{"concat-doubling", func(g *core.Tape) string { return `local s = "x" while true do s = s .. s end` }},
	{"concat-loop", func(g *core.Tape) string { return `local s = "" while true do s = s .. "0123456789" end` }},
	{"table-growth", func(g *core.Tape) string { return `local t = {} local i = 0 while true do i = i + 1 t[i] = i end` }},
	{"table-hash-growth", func(g *core.Tape) string {
		return `local t = {} local i = 0 while true do i = i + 1 t["k" .. i] = {} end`
	}},
	{"closure-storm", func(g *core.Tape) string {
		return `local fs = {} while true do local v = #fs fs[#fs + 1] = function() return v end end`
	}},
	{"string-rep", func(g *core.Tape) string { return `return #string.rep("x", ` + bigN(g) + `)` }},
	{"string-rep-sep", func(g *core.Tape) string { return `return #string.rep("ab", ` + bigN(g) + `, "--")` }},
	{"string-rep-empty", func(g *core.Tape) string {
		a := []string{`""`, `""`, `"x"`}[g.Choose(3)]
		b := []string{`""`, `"-"`, `""`}[g.Choose(3)]
		return `return #string.rep(` + a + `, ` + bigN(g) + `, ` + b + `)`
	}},
	{"range-over-nothing", func(g *core.Tape) string {
		// index ranges far beyond a small (or empty) table or string: nothing to build, so nothing is
		// charged for memory - the walk itself has to be metered or refused
		n := bigN(g)
		calls := []string{
			`table.move({}, 1, N, 1)`, `table.move({}, 1, N, 2, {})`, `table.move({1, 2, 3}, N, 1, 1)`,
			`table.concat({}, "", 1, N)`, `table.concat({"a"}, "", 1, N)`, `table.unpack({}, 1, N)`, `table.unpack({}, -N, 0)`,
			`string.byte("", 1, N)`, `string.byte("abc", -N, N)`, `("x"):sub(-N, N)`, `string.rep("", N)`, `string.rep("", N, "")`,
			`utf8.codepoint("", 1, N)`, `utf8.len("", 1, N)`, `utf8.offset("abc", N)`, `utf8.offset("abc", -N)`, `utf8.char()`,
			`table.remove({}, N)`, `table.insert({}, N, 1)`, `select(N, 1)`, `select(-N, 1)`, `math.random(1, N)`,
			`string.gsub("", "", "", N)`, `("xxx"):gsub("", "", N)`, `("x"):find("", N)`, `("x"):find("", -N, true)`, `string.format("%s", ""):rep(N)`,
			`next({}, nil)`, `rawlen({})`, `(#setmetatable({}, {__len = function() return N end}))`, `table.concat(setmetatable({}, {__len = function() return N end, __index = function() return "" end}))`,
			`table.unpack(setmetatable({}, {__len = function() return N end}))`, `table.sort(setmetatable({}, {__len = function() return N end, __index = function() return 1 end, __newindex = function() end}))`,
			`table.move(setmetatable({}, {__index = function() return 0 end}), 1, N, 1, setmetatable({}, {__newindex = function() end}))`,
		}
		c := calls[g.Choose(len(calls))]
		return `local N = math.tointeger(` + n + `) or ` + n + ` return ` + c
	}},
	{"string-rep-rep", func(g *core.Tape) string { return `return #(("x"):rep(1e4):rep(` + bigN(g) + `))` }},
	{"string-format-width", func(g *core.Tape) string {
		return `return #string.format("%99d%99d%99d", 1, 2, 3):rep(` + bigN(g) + `)`
	}},
	{"table-concat", func(g *core.Tape) string {
		return `local t = {} for i = 1, 200 do t[i] = ("y"):rep(100) end local u = {} for i = 1, ` + bigN(g) + ` do u[i] = table.concat(t) end`
	}},
	{"table-unpack", func(g *core.Tape) string { return `return select("#", table.unpack({}, 1, ` + bigN(g) + `))` }},
	{"table-insert-mid", func(g *core.Tape) string {
		return `local t = {} for i = 1, ` + bigN(g) + ` do table.insert(t, 1, i) end`
	}},
	{"table-move", func(g *core.Tape) string { return `table.move({1}, 1, ` + bigN(g) + `, 2)` }},
	{"table-sort-bad-cmp", func(g *core.Tape) string {
		return `local t = {} for i = 1, 300 do t[i] = i end while true do pcall(table.sort, t, function(a, b) return true end) end`
	}},
	{"utf8-char", func(g *core.Tape) string {
		return `local t = {} for i = 1, 200 do t[i] = 8364 end while true do t[#t + 1] = utf8.char(table.unpack(t, 1, 200)) end`
	}},
	{"string-pack", func(g *core.Tape) string {
		return `return #string.pack(("i8"):rep(1e4) .. "c" .. math.tointeger(` + bigN(g) + `), 1)`
	}},
	{"gsub-expand", func(g *core.Tape) string {
		return `return #(("a"):rep(1e5):gsub(".", ("%0"):rep(` + bigN(g) + `)))`
	}},
	{"gsub-expand-long-match", func(g *core.Tape) string {
		k := []string{"1e3", "1e4", "1e5", "1e6"}[g.Choose(4)]
		pat := []string{".+", "(.+)", "(a+)(a)", "a*"}[g.Choose(4)]
		ref := []string{"%0", "%1", "%0%1", "x%0"}[g.Choose(4)]
		return `return #(("a"):rep(` + k + `):gsub("` + pat + `", ("` + ref + `"):rep(` + bigN(g) + `)))`
	}},
	{"gsub-table-repl", func(g *core.Tape) string {
		return `local big = ("z"):rep(1e4) return #(("a"):rep(` + bigN(g) + `):gsub(".", {a = big}))`
	}},
	{"gsub-func-repl", func(g *core.Tape) string {
		return `local big = ("z"):rep(1e4) return #(("a"):rep(` + bigN(g) + `):gsub(".", function() return big end))`
	}},
	{"format-width", func(g *core.Tape) string {
		return `return #string.format(("%99s"):rep(` + bigN(g) + `), "x")`
	}},
	{"format-q-big", func(g *core.Tape) string {
		return `return #string.format("%q%q%q%q", ("\0"):rep(` + bigN(g) + `), "a", "b", "c")`
	}},
	{"upper-lower-reverse", func(g *core.Tape) string {
		f := []string{"upper", "lower", "reverse"}[g.Choose(3)]
		return `local s = ("ab"):rep(1e4) local n = 0 for i = 1, ` + bigN(g) + ` do s = (s .. s):` + f + `() n = #s end return #s`
	}},
	{"concat-doubling", func(g *core.Tape) string {
		return `local s = "x" for i = 1, ` + bigN(g) + ` do s = s .. s end return #s`
	}},
	{"table-concat-sep", func(g *core.Tape) string {
		return `local t = {} for i = 1, 1000 do t[i] = "v" end return #table.concat(t, ("-"):rep(` + bigN(g) + `))`
	}},
	{"string-char-unpack", func(g *core.Tape) string {
		return `local t = {} for i = 1, ` + bigN(g) + ` do t[i] = 65 end return #string.char(table.unpack(t))`
	}},
	{"utf8-char-unpack", func(g *core.Tape) string {
		return `local t = {} for i = 1, ` + bigN(g) + ` do t[i] = 0x10FFFF end return #utf8.char(table.unpack(t))`
	}},
	{"tostring-concat-numbers", func(g *core.Tape) string {
		return `local s = "" for i = 1, ` + bigN(g) + ` do s = s .. i .. 1.5 end return #s`
	}},
	{"pattern-balanced-unbalanced", func(g *core.Tape) string {
		f := []string{"find", "match", "gsub", "gmatch"}[g.Choose(4)]
		call := `string.` + f + `(s, "%b()"` + map[string]string{"find": ")", "match": ")", "gsub": `, "")`, "gmatch": ")()"}[f]
		return `local s = ("("):rep(` + bigN(g) + `) return ` + call
	}},
	{"pattern-work-without-progress", func(g *core.Tape) string {
		// patterns that keep the matcher busy without advancing in the subject: items that fail,
		// backtracking, comparisons with a long capture
		switch g.Choose(4) {
		case 0:
			return `local s = ("a"):rep(` + []string{"3e5", "1e6", "3e6"}[g.Choose(3)] + `) return s:find("^(a*)%1b")`
		case 1:
			return `local s = ("a"):rep(` + []string{"1e5", "1e6"}[g.Choose(2)] + `) return s:find(("b?"):rep(4999) .. "c")`
		case 2:
			return `local s = ("a"):rep(` + []string{"1e5", "1e6"}[g.Choose(2)] + `) return s:find(("%f[b]"):rep(50) .. ("b*"):rep(2000) .. "c")`
		default:
			return `local s = ("ab"):rep(` + []string{"1e5", "5e5"}[g.Choose(2)] + `) return s:gsub("(a)(b)%2%1%1%2c", "")`
		}
	}},
	{"pattern-items-big-subject", func(g *core.Tape) string {
		pat := []string{"%f[%d]", "(a)(b)%1%2c", "[^b]*b", "a-b", ".-.-.-c", "%s*$", "[%w_]+%.[%w_]+"}[g.Choose(7)]
		return `local s = ("ab "):rep(` + bigN(g) + `) return string.find(s, "` + pat + `")`
	}},
	{"sort-comparator", func(g *core.Tape) string {
		return `local t = {} for i = 1, 300 do t[i] = (i * 7919) % 1000 end table.sort(t, function(a, b) return a < b end)`
	}},
	{"sort-comparator-spin", func(g *core.Tape) string {
		return `table.sort({3, 2, 1}, function(a, b) while true do end end)`
	}},
	{"sort-invalid-order", func(g *core.Tape) string {
		return `local t = {} for i = 1, 500 do t[i] = i % 7 end table.sort(t, function(a, b) return true end)`
	}},
	{"sort-metamethod-lt", func(g *core.Tape) string {
		return `local mt = {__lt = function(a, b) return a.v < b.v end} local t = {} for i = 1, 200 do t[i] = setmetatable({v = (i * 31) % 97}, mt) end table.sort(t)`
	}},
	{"pack-fixed-size-padding", func(g *core.Tape) string {
		opt := []string{"c", "!1c", "<c", "i1c"}[g.Choose(4)]
		args := `"x"`
		if opt == "i1c" {
			args = `1, "x"`
		}
		return `return #string.pack("` + opt + `" .. math.tointeger(` + bigN(g) + `), ` + args + `)`
	}},
	{"pack-alignment-padding", func(g *core.Tape) string {
		return `return #string.pack(("!16 i1 Xi16"):rep(` + bigN(g) + `), 1)`
	}},
	{"live:coroutine-close-unstarted", func(g *core.Tape) string {
		return liveLoop(`coroutine.close(coroutine.create(print))`)
	}},
	{"live:coroutine-finished", func(g *core.Tape) string {
		return liveLoop(`local co = coroutine.wrap(function(...) return ... end) co(1, 2, 3)`)
	}},
	{"live:coroutine-closed-suspended", func(g *core.Tape) string {
		return liveLoop(`local co = coroutine.create(function() coroutine.yield() end) coroutine.resume(co) coroutine.close(co)`)
	}},
	{"live:coroutine-error", func(g *core.Tape) string {
		return liveLoop(`local co = coroutine.create(error) coroutine.resume(co, "x")`)
	}},
	{"live:load-comment", func(g *core.Tape) string {
		return `local src = "--" .. ("x"):rep(` + []string{"100", "1e4", "1e5"}[g.Choose(3)] + `) .. "\nreturn 1" ` + liveLoop(`load(src)`)
	}},
	{"live:load-syntax-error", func(g *core.Tape) string {
		return `local src = ("x = 1 "):rep(` + []string{"10", "1e3", "1e4"}[g.Choose(3)] + `) .. " = " ` + liveLoop(`load(src)`)
	}},
	{"live:load-function-reader", func(g *core.Tape) string {
		// the pieces handed over by the reader are charged while they are put together and given back
		// once the chunk is compiled: once, not twice
		piece := []string{`"local a = 1 "`, `"--" .. ("x"):rep(2000) .. "\n"`, `"--" .. ("x"):rep(20000) .. "\n"`}[g.Choose(3)]
		return `local piece = ` + piece + ` ` + liveLoop(`local k = 0 load(function() k = k + 1 if k < 20 then return piece end end)`)
	}},
	{"live:pcall-error", func(g *core.Tape) string {
		return liveLoop(`pcall(error, {}) pcall(string.rep) pcall(select, -1)`)
	}},
	{"live:child-context", func(g *core.Tape) string {
		return liveLoop(`runtime.callcontext({kill = {memory = 60000}}, function() local s = ("y"):rep(30000) end) runtime.callcontext({kill = {memory = 10000}}, function() local s = ("y"):rep(30000) end)`)
	}},
	{"live:format-utf8-select", func(g *core.Tape) string {
		return liveLoop(`local _ = string.format("%5d%s%q", 1, "a", "b") .. utf8.char(65, 0x10FFFF) .. select("#", 1, 2, 3)`)
	}},
	{"live:load-compile-error", func(g *core.Tape) string {
		// a chunk that parses but is refused by the compiler (as opposed to a syntax error)
		bad := []string{`"goto nowhere --"`, `"break --"`, `"local x <const> = 1 x = 2 --"`, `"::l:: ::l:: --"`}[g.Choose(4)]
		return `local bad = ` + bad + ` .. ("x"):rep(` + []string{"100", "1e4", "1e5"}[g.Choose(3)] + `) ` + liveLoop(`load(bad)`)
	}},
	{"live:tostring-with-long-name", func(g *core.Tape) string {
		k := []string{"1000", "1e5"}[g.Choose(2)]
		return `local t = setmetatable({}, {__name = ("n"):rep(` + k + `)}) local keep, n = {}, 0 while true do n = n + 1 keep[n] = tostring(t) if n % 10 == 0 then emit("len", n * ` + k + `) end end`
	}},
	{"live:os-date-literal-text", func(g *core.Tape) string {
		k := []string{"1000", "1e5"}[g.Choose(2)]
		return `local fmt = ("x"):rep(` + k + `) local keep, n = {}, 0 while true do n = n + 1 keep[n] = os.date(fmt) if n % 10 == 0 then emit("len", n * ` + k + `) end end`
	}},
	{"file-buffer-size", func(g *core.Tape) string {
		f := []string{`io.stdout`, `io.tmpfile()`, `io.stderr`}[g.Choose(3)]
		mode := []string{"full", "line"}[g.Choose(2)]
		return `local f = ` + f + ` f:setvbuf("` + mode + `", math.tointeger(` + bigN(g) + `)) f:setvbuf("no")`
	}},
	{"file-read-all", func(g *core.Tape) string {
		return `local f = io.tmpfile() local blk = ("x"):rep(1e5) for i = 1, 120 do f:write(blk) end f:seek("set", 0) return #f:read("a")`
	}},
	{"file-read-count", func(g *core.Tape) string {
		return `local f = io.open("/dev/zero") return #f:read(math.tointeger(` + bigN(g) + `))`
	}},
	{"file-lines-count", func(g *core.Tape) string {
		return `for l in io.lines("/dev/zero", math.tointeger(` + bigN(g) + `)) do emit("len", #l) break end`
	}},
	{"file-read-sparse", func(g *core.Tape) string {
		return `local f = io.tmpfile() f:seek("set", math.tointeger(` + []string{"1e6", "1e8", "2^31"}[g.Choose(3)] + `)) f:write("x") f:seek("set", 0) return #f:read("a")`
	}},
	{"live:varargs-held-by-frames", func(g *core.Tape) string {
		// every frame of the recursion holds its own copy of the argument list (16 bytes a value)
		k := []string{"100", "1000", "10000"}[g.Choose(3)]
		return `local function f(n, d, ...) if n == 0 then emit("len", d * select("#", ...) * 16) return 0 end return 1 + f(n - 1, d, ...) end local s = ("x"):rep(` + k + `) for d = 10, 1e9, 40 do f(d, d, string.byte(s, 1, -1)) end`
	}},
	{"live:varargs-held-by-tables", func(g *core.Tape) string {
		return `local keep, n = {}, 0 local s = ("x"):rep(500) while true do n = n + 1 keep[n] = table.pack(string.byte(s, 1, -1)) if n % 10 == 0 then emit("len", n * 500 * 16) end end`
	}},
	{"live:varargs-held-by-coroutines", func(g *core.Tape) string {
		return `local keep, n = {}, 0 local s = ("x"):rep(300) while true do n = n + 1 local co = coroutine.wrap(function(...) coroutine.yield() return ... end) co(string.byte(s, 1, -1)) keep[n] = co if n % 10 == 0 then emit("len", n * 300 * 16) end end`
	}},
	{"live:varargs-and-closures", func(g *core.Tape) string {
		return liveLoop(`local function f(...) local a, b = ... return function() return a, b end end f(1, 2, 3, 4, 5)() (function(...) return select(2, ...) end)(1, 2, 3)`)
	}},
	{"gsub-func-spin", func(g *core.Tape) string {
		return `(("a"):rep(10)):gsub(".", function() while true do end end)`
	}},
	{"pattern-backtrack", func(g *core.Tape) string {
		return `return string.find(("a"):rep(200), ("a*"):rep(60) .. "b")`
	}},
	{"pattern-backtrack2", func(g *core.Tape) string {
		return `return string.match(("a"):rep(5000), "^(.-)(.-)(.-)(.-)(.-)b$")`
	}},
	{"gmatch-loop", func(g *core.Tape) string {
		return `for w in string.gmatch(("ab "):rep(` + bigN(g) + `), "%a+") do end`
	}},
	{"load-huge", func(g *core.Tape) string { return `return load(("x = 1 "):rep(` + bigN(g) + `))` }},
	{"load-loop", func(g *core.Tape) string { return `while true do load("return function() return 1 end")() end` }},
	{"load-reader", func(g *core.Tape) string { return `return load(function() return "x = 1 " end)` }},
	{"dump-loop", func(g *core.Tape) string {
		return `local f = function(a) return a end while true do f = load(string.dump(f)) end`
	}},
	{"nested-context-spin", func(g *core.Tape) string {
		return `while true do runtime.callcontext({kill = {cpu = 1000000000000}}, function() while true do end end) end`
	}},
	{"nested-context-big-mem", func(g *core.Tape) string {
		return `while true do runtime.callcontext({kill = {memory = 1000000000000}}, string.rep, "x", 1e9) end`
	}},
	{"nested-context-pcall", func(g *core.Tape) string {
		return `while true do runtime.callcontext({}, pcall, function() while true do end end) end`
	}},
	{"killcontext-in-pcall", func(g *core.Tape) string {
		return `emit("before") pcall(runtime.killcontext) emit("after-kill")`
	}},
	{"select-huge", func(g *core.Tape) string { return `return select(` + bigN(g) + `, 1, 2, 3)` }},
	{"string-byte-all", func(g *core.Tape) string {
		return `local s = ("x"):rep(1e5) while true do local t = {s:byte(1, -1)} end`
	}},
	{"tostring-tonumber-loop", func(g *core.Tape) string {
		return `local n = 0 while true do n = tonumber(tostring(n)) + 1 end`
	}},
	{"math-loop", func(g *core.Tape) string { return `local x = 0 while true do x = math.floor(math.sqrt(x + 2) * 3) end` }},
	{"os-time-loop", func(g *core.Tape) string { return `while true do local t = os.clock() end` }},
	{"error-object-growth", func(g *core.Tape) string {
		return `local e = "x" while true do local ok, m = pcall(error, e .. e) e = m end`
	}},
	{"varargs-growth", func(g *core.Tape) string {
		return `local function f(...) return f(1, ...) end f()`
	}},
	{"setmetatable-close-chain", func(g *core.Tape) string {
		return `local function f(n) local x <close> = setmetatable({}, {__close = function() end}) return f(n + 1) end f(1)`
	}},
}

// Exit-path templates are not wrapped in a loop: the body ends (normally or by
// error) and the never-ending work sits on the way out of the context -
// finalizers and __close handlers run by CallContext and by a dying coroutine.
var exitTemplates = []advTemplate{
	{"exit:gc-spin-after-error", func(g *core.Tape) string {
		return `setmetatable({}, {__gc = function() emit("gc-ran") while true do end end}) error("x")`
	}},
	{"exit:gc-spin-after-return", func(g *core.Tape) string {
		return `setmetatable({}, {__gc = function() emit("gc-ran") while true do end end}) return 1`
	}},
	{"exit:gc-rep-after-error", func(g *core.Tape) string {
		return `setmetatable({}, {__gc = function() local s = "x" while true do s = s .. s end end}) error("x")`
	}},
	{"exit:close-spin-after-error", func(g *core.Tape) string {
		return `local x <close> = setmetatable({}, {__close = function() while true do end end}) error("x")`
	}},
	{"exit:close-spin-after-return", func(g *core.Tape) string {
		return `local x <close> = setmetatable({}, {__close = function() while true do end end}) return 1`
	}},
	{"exit:coroutine-death-close-spin", func(g *core.Tape) string {
		return `local co = coroutine.wrap(function() local x <close> = setmetatable({}, {__close = function() while true do end end}) error("die") end) co()`
	}},
	{"exit:coroutine-death-close-spin-resume", func(g *core.Tape) string {
		return `local co = coroutine.create(function() local x <close> = setmetatable({}, {__close = function() while true do end end}) error("die") end) coroutine.resume(co) while true do end`
	}},
	{"exit:coroutine-close-spin", func(g *core.Tape) string {
		return `local co = coroutine.create(function() local x <close> = setmetatable({}, {__close = function() while true do end end}) coroutine.yield() end) coroutine.resume(co) coroutine.close(co) while true do end`
	}},
	{"exit:killed-child-close-in-parent", func(g *core.Tape) string {
		lim := []string{"cpu = 300", "memory = 20000"}[g.Choose(2)]
		spin := []string{`while true do end`, `local s = "x" while true do s = s .. s end`}[g.Choose(2)]
		inner := `local x <close> = setmetatable({}, {__close = function() emit("after-kill: close handler of a killed context") end}) ` + spin
		call := `runtime.callcontext({kill = {` + lim + `}}, function() ` + inner + ` end)`
		if g.Chance(1, 3) {
			call = `coroutine.wrap(function() ` + call + ` end)()`
		}
		return call + ` local function f() return 1 end f() do local y <close> = setmetatable({}, {__close = function() end}) end emit("parent-goes-on") while true do end`
	}},
	{"exit:killed-child-gc-in-parent", func(g *core.Tape) string {
		return `runtime.callcontext({kill = {cpu = 300}}, function() setmetatable({}, {__gc = function() emit("gc-ran") end}) while true do end end) pcall(collectgarbage) local junk = {} for i = 1, 200 do junk[i] = {} end emit("parent-goes-on") while true do end`
	}},
	{"exit:gc-pending-when-killed", func(g *core.Tape) string {
		// finalisers still pending when the limit is reached: they belong to the killed context and
		// must not run afterwards (when the context is left, when the runtime is closed)
		fin := []string{`emit("gc-ran")`, `emit("gc-ran") while true do end`, `emit("gc-ran") local s = "x" while true do s = s .. s end`}[g.Choose(3)]
		return `KEEP = setmetatable({}, {__gc = function() ` + fin + ` end}) setmetatable({}, {__gc = function() ` + fin + ` end}) while true do end`
	}},
	{"exit:xpcall-handler-spin-error", func(g *core.Tape) string {
		return `xpcall(error, function() while true do end end) while true do end`
	}},
}

func runQuotaAdv(ctx *core.RunCtx) {
	g := ctx.Gen
	prop := "C05"
	if strings.HasPrefix(ctx.Mode, "mem") {
		prop = "C06"
	}
	ti := g.Choose(len(advTemplates))
	if g.Chance(1, 4) {
		// the churn templates (something is required and released over and over while the program
		// holds more and more) need many rounds to tell: they get a larger share of the runs
		var live []int
		for i, t := range advTemplates {
			if strings.HasPrefix(t.name, "live:") {
				live = append(live, i)
			}
		}
		ti = live[g.Choose(len(live))]
	}
	tpl := advTemplates[ti]
	wrap := g.Choose(3)
	if g.Chance(1, 6) {
		tpl = exitTemplates[g.Choose(len(exitTemplates))]
		wrap = 3
	}
	body := tpl.body(g)
	if strings.HasPrefix(body, "return #") || strings.Contains(body, " return #") {
		// the size of what was built is reported: a value of M bytes or more cannot exist under limit M
		i := strings.LastIndex(body, "return #")
		body = body[:i] + `emit("len", ` + body[i+7:] + `)`
	}
	var src string
	switch wrap {
	case 3:
		src = body + "\n"
	case 0:
		src = "while true do pcall(function() " + body + " end) end\n"
	case 1:
		src = "while true do pcall(coroutine.wrap(function() " + body + " end)) end\n"
	default:
		src = "while true do xpcall(function() " + body + " end, function(m) return m end) end\n"
	}
	// limits: both always set (unbounded memory under a CPU-only limit is outside
	// what the property promises); which one bites first varies.
	cpuL := []uint64{100, 1000, 10000, 100000, 1000000}[g.Choose(5)] + uint64(g.Choose(97))
	memL := []uint64{20000, 100000, 500000, 2000000}[g.Choose(4)] + uint64(g.Choose(997))
	if prop == "C05" {
		memL = 4000000 + uint64(g.Choose(997))
	} else {
		cpuL = 5000000 + uint64(g.Choose(97))
	}
	ctx.Sample = fmt.Sprintf("-- template %s, kill={cpu=%d, memory=%d}\n%s", tpl.name, cpuL, memL, src)
	var ms0, ms1 runtime.MemStats
	runtime.ReadMemStats(&ms0)
	if ms0.HeapAlloc > 24<<20 {
		// garbage left by earlier runs must not be billed to this one: start from a collected heap
		runtime.GC()
		runtime.ReadMemStats(&ms0)
	}
	start, cpu0 := time.Now(), procCPU()
	root := wrap == 3 && g.Chance(1, 3)
	var r *quotaRun
	if root {
		// the limits belong to the runtime itself; the host closes it after the kill
		ctx.Count("fault.kill of the runtime's own context, then Close", 1)
		r = execLimitedRoot(src, rt.RuntimeResources{Cpu: cpuL, Memory: memL})
		cpuL += 3000000
		memL += 3000000
	} else {
		r = execLimited(src, rt.RuntimeResources{Cpu: cpuL, Memory: memL}, core.ReplayTape(nil), false, nil)
	}
	wall, cpuT := time.Since(start), procCPU()-cpu0
	runtime.ReadMemStats(&ms1)
	alloc := ms1.TotalAlloc - ms0.TotalAlloc
	ctx.Ticks += r.used.Cpu
	ctx.Count("template."+tpl.name, 1)
	ctx.Count("fault.kill (adversarial runs)", 1)
	ctx.Trivial = false
	ctx.Shape = core.HashString(src) ^ cpuL*31 ^ memL*131
	where := fmt.Sprintf("template=%s wrap=%d kill={cpu=%d,memory=%d}", tpl.name, wrap, cpuL, memL)
	sig := tpl.name
	if root {
		// the kill of the runtime's own context surfaces at the host as a termination (that is how the
		// golua command sees it); what counts is that it happened, that nothing of the program ran
		// after it - not even while the runtime was closed - and that the counters stayed below the limits
		where += " (limits owned by the runtime, closed after the kill)"
		if strings.Contains(r.outcome, "PANIC") && !strings.Contains(r.outcome, "PANIC(TERMINATION") {
			ctx.Fail(prop, prop+".P", "panic:"+sig, "Go panic escaped: %s; %s", r.outcome, where)
			return
		}
		if r.status != rt.StatusKilled {
			ctx.Fail(prop, prop+".K3", "not-killed:"+sig, "a program that never ends on its own left the runtime's context with status %v, outcome %s; %s", r.status, r.outcome, where)
			return
		}
		if r.termAt >= 0 && len(r.events) > r.termAt {
			ctx.Fail(prop, prop+".K3", "event-after-termination:"+sig, "event %q emitted after the runtime's context was terminated; %s", r.events[r.termAt], where)
			return
		}
		if r.used.Cpu >= cpuL || r.used.Memory >= memL {
			ctx.Fail(prop, prop+".K2", "used-reaches-limit:"+sig, "used cpu=%d memory=%d; %s", r.used.Cpu, r.used.Memory, where)
			return
		}
		if cpuT > 10*time.Second {
			ctx.Fail(prop, prop+".K6", "slow:"+sig, "took %v of processor time; %s", cpuT, where)
		}
		return
	}
	if strings.Contains(r.outcome, "PANIC") {
		ctx.Fail(prop, prop+".P", "panic:"+sig, "Go panic escaped: %s; %s", r.outcome, where)
		return
	}
	if r.status != rt.StatusKilled || !strings.Contains(r.outcome, "TERMINATED") {
		ctx.Fail(prop, prop+".K3", "not-killed:"+sig, "a program that never ends on its own ended with status %v, outcome %s, last events %v; %s", r.status, r.outcome, tailStr(r.events, 3), where)
		return
	}
	if r.used.Cpu >= cpuL || r.used.Memory >= memL {
		ctx.Fail(prop, prop+".K2", "used-reaches-limit:"+sig, "used cpu=%d memory=%d; %s", r.used.Cpu, r.used.Memory, where)
		return
	}
	if r.termAt >= 0 && len(r.events) > r.termAt {
		ctx.Fail(prop, prop+".K3", "event-after-termination:"+sig, "event %q emitted after the context was terminated; %s", r.events[r.termAt], where)
		return
	}
	for _, e := range r.events {
		if strings.HasPrefix(e, "emit \"len\" ") {
			var n uint64
			fmt.Sscan(e[len("emit \"len\" "):], &n)
			ctx.Count("probe.sized value built under the limit", 1)
			if n >= memL {
				ctx.Fail(prop, prop+".M3", "value-exceeds-limit:"+sig, "a string of %d bytes was built in a context whose memory limit is %d (accounted at the end: %d); %s", n, memL, r.used.Memory, where)
				return
			}
		}
	}
	for _, e := range r.events {
		if strings.Contains(e, "after-kill") {
			ctx.Fail(prop, prop+".K3", "kill-intercepted:"+sig, "code after runtime.killcontext() ran; %s", where)
			return
		}
	}
	if r.leak != "" {
		ctx.Fail(prop, prop+".V7", "leak:"+sig, "goroutine leaked: %s; %s", r.leak, where)
		return
	}
	// K6 / M3: real work and real allocation bounded.  Thresholds are far above
	// what the unchanged tree needs (it stays under 100 ms and 40 MB on every
	// template) and scale with the limits.
	if maxCPU := 10 * time.Second; cpuT > maxCPU {
		ctx.Fail(prop, prop+".K6", "slow:"+sig, "took %v of processor time (%v of wall time) under cpu limit %d; %s", cpuT, wall, cpuL, where)
		return
	}
	// cumulative allocation may legitimately grow with the CPU budget (garbage churn of a loop that is
	// charged CPU), the heap obtained from the OS may not grow beyond a multiple of M
	maxAlloc := 16*memL + 96<<20 + 600*cpuL
	if alloc > maxAlloc {
		ctx.Fail(prop, prop+".M3", "heap:"+sig, "allocated %d bytes of Go heap under memory limit %d and cpu limit %d (bound %d); %s", alloc, memL, cpuL, maxAlloc, where)
		return
	}
	grown := uint64(0)
	if ms1.HeapSys > ms0.HeapSys {
		grown = ms1.HeapSys - ms0.HeapSys
	}
	if maxSys := 64*memL + 128<<20; grown > maxSys {
		ctx.Fail(prop, prop+".M3", "heap-growth:"+sig, "the Go heap of the process grew by %d bytes under memory limit %d (bound %d); %s", grown, memL, maxSys, where)
		return
	}
	if grown > 64<<20 {
		ctx.Count("probe.runs growing the process heap by over 64MiB", 1)
	}
	if wall > 200*time.Millisecond {
		ctx.Count("probe.runs over 200ms", 1)
	}
	if alloc > 32<<20 {
		ctx.Count("probe.runs allocating over 32MiB", 1)
	}
	ctx.Count("alloc MiB total", int64(alloc>>20))
}

//go:build verif && !noquotas

package engines

import (
	"fmt"
	"math"
	"os"
	goruntime "runtime"
	"strings"
	"time"

	rt "github.com/arnodel/golua/runtime"

	"vsim/core"
	"vsim/harness"
)

// E-CRASH (DESIGN §4 C04).  Workloads: (src) valid programs whose stored bytes
// are flipped, truncated or spliced before compilation; (lib) every Go function
// reachable from the global table called with 0-4 arguments from an edge pool;
// (ramp) depth/size ramps whose correct value is known by construction.  Faults:
// CPU and memory limits landing anywhere in scanner, parser, compiler, VM and
// libraries; erroring callbacks.  Oracle, at the process boundary: no Go panic
// escapes compile or call (R1), the worker process survives (R2, seen by the
// supervisor), the case returns (R3, watchdog), ramps give the right value or an
// ordinary error (R4).

func init() {
	core.Register(&core.Engine{Name: "crash", Run: runCrash})
}

var crashSkip = map[string]bool{
	"_G.os.exit": true, "_G.os.execute": true, "_G.io.popen": true, "_G.os.remove": true, "_G.os.rename": true,
	"_G.dofile": true, "_G.loadfile": true, "_G.require": true, "_G.golib.import": true, "_G.os.tmpname": true,
	"_G.io.tmpfile": true, "_G.package.searchpath": true, "_G.io.lines": true, "_G.io.open": true, "_G.io.output": true, "_G.io.input": true,
	"_G.collectgarbage": true, "_G.debug.sethook": true,
}

func edgeValue(g *core.Tape, h *harness.Host, extra []rt.Value) (rt.Value, string) {
	strs := []string{"", "a", "abc", "%", "%d", "%s%s%s", "%99999d", "%q", "[", "[^", "%b", "%f", "(", "())", "%1", ".-", "a*a*a*a*b", strings.Repeat("x", 300), "\x00", "\xff\xfe", "1e999", "0x", "-", "nan", "i8", "!17i3", "z", "s16", "<>=!", "*a", "n", "l", "L",
		"\xff\xff\xff\xff\xff\xff\xff\xff", "\xff\xff\xff\xff\xff\xff\xff\x7f", "\x00\x00\x00\x00\x00\x00\x00\x80", "\xff\xff\xff\xff", "\x05ab", "s", "s8", "s1", "s4", "j", "J", "T", "c0", "c10", "Xi8", "!", "i16", "i17", "d", "f", " <i4 >i4 =i4",
		"%c", "%5.2s", "%-5d", "%+.3f", "%#x", "%a", "%i", "%.99f", "%099d", "%.0s", "%5%", "%*d", "%ll", "%b()", "%f[%w]", "^$", "[]]", "[a-]", "[%a-z]", "%g+", "()", "(()", "%0", "%9", "*t", "!*t", "%Y-%m-%d", "%E", "%Ez", "%", "%c%x%X"}
	nums := []float64{math.NaN(), math.Inf(1), math.Inf(-1), math.Copysign(0, -1), 1e308, -1e308, 0.5, 9007199254740993}
	ints := []int64{0, 1, -1, 2, 255, 256, 65536, 0x10FFFF, 0x110000, 0x200000, 0x3FFFFFF, 0x4000000, 0x7FFFFFFF, 1 << 31, 1 << 53, math.MaxInt64, math.MinInt64, math.MaxInt64 - 1, -2, 100, 1000000}
	switch g.Weighted(2, 4, 3, 5, 2, 2, 1, 1) {
	case 0:
		if g.Chance(1, 2) {
			return rt.NilValue, "nil"
		}
		b := g.Chance(1, 2)
		return rt.BoolValue(b), fmt.Sprint(b)
	case 1:
		i := ints[g.Choose(len(ints))]
		return rt.IntValue(i), fmt.Sprint(i)
	case 2:
		f := nums[g.Choose(len(nums))]
		return rt.FloatValue(f), fmt.Sprint(f)
	case 3:
		s := strs[g.Choose(len(strs))]
		d := s
		if len(d) > 20 {
			d = d[:20] + "..."
		}
		return rt.StringValue(s), fmt.Sprintf("%q", d)
	case 4:
		t := rt.NewTable()
		for i := 1; i <= g.Choose(4); i++ {
			t.Set(rt.IntValue(int64(i)), rt.IntValue(int64(10-i)))
		}
		return rt.TableValue(t), "table"
	case 5:
		if len(extra) > 0 {
			k := g.Choose(len(extra))
			return extra[k], fmt.Sprintf("special#%d", k)
		}
		return rt.NilValue, "nil"
	case 6:
		return h.R.GlobalEnv().Get(rt.StringValue("error")), "error-function"
	default:
		return h.R.GlobalEnv().Get(rt.StringValue("print")), "print-function"
	}
}

const crashSpecials = `
local function bad() error("callback-error") end
local evil = setmetatable({}, {__index = bad, __newindex = bad, __len = bad, __call = bad, __tostring = bad, __eq = bad, __lt = bad, __le = bad, __concat = bad, __add = bad, __unm = bad, __close = bad, __name = 42, __pairs = bad})
local rec = {} setmetatable(rec, {__index = rec, __newindex = rec})
local selfidx = setmetatable({}, {__index = function(t, k) return t[k] end})
local dead = coroutine.create(function() end) coroutine.resume(dead)
local susp = coroutine.create(function() coroutine.yield() end) coroutine.resume(susp)
local fresh = coroutine.create(function(...) return ... end)
local big = {} for i = 1, 300 do big[i] = i end
local weird = setmetatable({}, {__metatable = false, __gc = bad, __mode = "kv"})
local callself = {} setmetatable(callself, {__call = callself})
local callchain = setmetatable({}, {__call = setmetatable({}, {__call = function(...) return select("#", ...) end})})
local lenself = setmetatable({}, {__len = function(t) return #t end})
local eqloop = setmetatable({}, {__eq = function(a, b) return a == b end, __lt = function(a, b) return a < b end, __concat = function(a, b) return a .. b end})
local roproxy = setmetatable({}, {__len = function() return 5 end, __index = function(t, k) return 6 - k end, __newindex = function() error("read-only") end})
local holeproxy = setmetatable({}, {__len = function() return 6 end, __index = function(t, k) if k == 3 then error("hole") end return (k * 7) % 5 end, __newindex = function(t, k, v) rawset(t, k, v) end})
local lenhuge = setmetatable({}, {__len = function() return math.maxinteger end, __index = function() return 1 end})
local lenneg = setmetatable({}, {__len = function() return -5 end})
local lenstr = setmetatable({}, {__len = function() return "3" end, __index = function(t, k) return k end})
local lenflt = setmetatable({}, {__len = function() return 2.5 end})
local n = 0
local lenvar = setmetatable({}, {__len = function() n = n + 1 return n % 7 end, __index = function(t, k) return k end})
local tsnum = setmetatable({}, {__tostring = function() return 42 end, __name = "X"})
local always = function() return true end
local never = function() return nil end
local yielder = coroutine.yield
local wrapped = coroutine.wrap(function(...) while true do coroutine.yield(...) end end)
local nameself = {} nameself.__name = nameself setmetatable(nameself, nameself)
local nameA, nameB = {}, {} setmetatable(nameA, {__name = nameB}) setmetatable(nameB, {__name = nameA})
local nametbl = setmetatable({}, {__name = setmetatable({}, {__tostring = function() error("in __name") end})})
local mixed = {3, "a", 2.5, {}, true}
local nums = {5, 3, 8, 1, 9, 2, 7}
return evil, rec, dead, susp, fresh, big, weird, function(...) return ... end, bad, io.stdout, io.stderr, selfidx, runtime.context(), callself, callchain, lenself, eqloop, roproxy, holeproxy, lenhuge, lenneg, lenstr, lenflt, lenvar, tsnum, always, never, yielder, wrapped, mixed, nums, nameself, nameA, nametbl
`

func corrupt(g *core.Tape, src string) (string, string) {
	b := []byte(src)
	if len(b) == 0 {
		return src, "none"
	}
	n := 1 + g.Choose(4)
	var ops []string
	junk := []string{"\x00", "\xff", "[[", "]]", "--[==[", "\"", "'", "\\", "\\x", "\\u{", "0x", "1e", "...", "::", "goto ", "<close>", "<const>", "end ", "function ", "(", ")", "{", "}", "~", "//", ">>", "\r\n", "\n\r", "\\z", "\\999", "#!", "=", ",", ";"}
	for i := 0; i < n; i++ {
		if len(b) == 0 {
			break
		}
		pos := g.Choose(len(b))
		switch g.Choose(5) {
		case 0:
			b[pos] ^= byte(1 << uint(g.Choose(8)))
			ops = append(ops, fmt.Sprintf("flip@%d", pos))
		case 1:
			b = b[:pos]
			ops = append(ops, fmt.Sprintf("truncate@%d", pos))
		case 2:
			j := junk[g.Choose(len(junk))]
			b = append(b[:pos], append([]byte(j), b[pos:]...)...)
			ops = append(ops, fmt.Sprintf("insert %q@%d", j, pos))
		case 3:
			end := pos + 1 + g.Choose(20)
			if end > len(b) {
				end = len(b)
			}
			b = append(b[:pos], b[end:]...)
			ops = append(ops, fmt.Sprintf("delete@%d+%d", pos, end-pos))
		case 4:
			from := g.Choose(len(b))
			ln := 1 + g.Choose(30)
			if from+ln > len(b) {
				ln = len(b) - from
			}
			chunk := append([]byte{}, b[from:from+ln]...)
			b = append(b[:pos], append(chunk, b[pos:]...)...)
			ops = append(ops, fmt.Sprintf("splice %d bytes from %d@%d", ln, from, pos))
		}
	}
	return string(b), strings.Join(ops, ", ")
}

type rampT struct {
	name string
	gen  func(n int) string
	want func(n int) string // expected canonical outcome when the program compiles and runs
}

var ramps = []rampT{
	{"not-chain", func(n int) string { return "return " + strings.Repeat("not ", n) + "true" }, func(n int) string {
		if n%2 == 0 {
			return "return(true)"
		}
		return "return(false)"
	}},
	{"paren-nesting", func(n int) string { return "return " + strings.Repeat("(", n) + "7" + strings.Repeat(")", n) }, func(n int) string { return "return(7)" }},
	{"block-nesting", func(n int) string {
		return strings.Repeat("do ", n) + "X = 5 " + strings.Repeat("end ", n) + "return X"
	}, func(n int) string { return "return(5)" }},
	{"function-nesting", func(n int) string {
		return "return " + strings.Repeat("(function() return ", n) + "3" + strings.Repeat(" end)()", n)
	}, func(n int) string { return "return(3)" }},
	{"locals-sum", func(n int) string {
		var b strings.Builder
		for i := 0; i < n; i++ {
			fmt.Fprintf(&b, "local v%d = 1\n", i)
		}
		b.WriteString("return 0")
		for i := 0; i < n; i++ {
			fmt.Fprintf(&b, " + v%d", i)
		}
		return b.String()
	}, func(n int) string { return fmt.Sprintf("return(%d)", n) }},
	{"table-constructor", func(n int) string { return "local t = {" + strings.Repeat("1,", n) + "} return #t" }, func(n int) string { return fmt.Sprintf("return(%d)", n) }},
	{"concat-chain", func(n int) string { return "return #(" + strings.Repeat(`"a"..`, n) + `"a")` }, func(n int) string { return fmt.Sprintf("return(%d)", n+1) }},
	{"if-chain", func(n int) string {
		var b strings.Builder
		b.WriteString("local x = " + fmt.Sprint(n) + "\n")
		for i := 0; i < n; i++ {
			if i == 0 {
				fmt.Fprintf(&b, "if x == %d then return %d\n", i, i)
			} else {
				fmt.Fprintf(&b, "elseif x == %d then return %d\n", i, i)
			}
		}
		b.WriteString("else return -1 end")
		return b.String()
	}, func(n int) string { return "return(-1)" }},
	{"jump-over", func(n int) string {
		return "local x = 1 if x == 2 then " + strings.Repeat("x = x + 1 ", n) + "end return x"
	}, func(n int) string { return "return(1)" }},
	{"constants", func(n int) string {
		var b strings.Builder
		b.WriteString("local s = 0\n")
		for i := 0; i < n; i++ {
			fmt.Fprintf(&b, "s = s + %d.5\n", i)
		}
		b.WriteString("return s > 0")
		return b.String()
	}, func(n int) string { return "return(true)" }},
	{"call-args", func(n int) string {
		return "return select('#', " + strings.Repeat("1,", n) + "1)"
	}, func(n int) string { return fmt.Sprintf("return(%d)", n+1) }},
	{"upvalues", func(n int) string {
		var b strings.Builder
		for i := 0; i < n; i++ {
			fmt.Fprintf(&b, "local u%d = %d\n", i, i%7)
		}
		b.WriteString("return (function() return 0")
		for i := 0; i < n; i++ {
			fmt.Fprintf(&b, " + u%d", i)
		}
		b.WriteString(" end)() >= 0")
		return b.String()
	}, func(n int) string { return "return(true)" }},
	{"lua-recursion", func(n int) string {
		return fmt.Sprintf("local function f(k) if k == 0 then return 0 end return 1 + f(k - 1) end return f(%d)", n)
	}, func(n int) string { return fmt.Sprintf("return(%d)", n) }},
	{"pcall-recursion", func(n int) string {
		return fmt.Sprintf("local function f(k) if k == 0 then return 0 end local ok, v = pcall(f, k - 1) if not ok then error(v, 0) end return v + 1 end return f(%d)", n)
	}, nil},
	// chains: not nested in the source, yet as deep as they are long for whoever walks the tree
	{"call-suffix-chain", func(n int) string {
		return "local f f = function() return f end return f" + strings.Repeat("()", n) + " == f"
	}, func(n int) string { return "return(true)" }},
	{"field-suffix-chain", func(n int) string {
		return "local t = {} t.a = t return t" + strings.Repeat(".a", n) + " == t"
	}, func(n int) string { return "return(true)" }},
	{"index-suffix-chain", func(n int) string {
		return "local t = {} t[1] = t return t" + strings.Repeat("[1]", n) + " == t"
	}, func(n int) string { return "return(true)" }},
	{"method-suffix-chain", func(n int) string {
		return "local t = {} function t:m() return self end return t" + strings.Repeat(":m()", n) + " == t"
	}, func(n int) string { return "return(true)" }},
	{"string-call-suffix-chain", func(n int) string {
		return "local f f = function(s) return f end return f" + strings.Repeat("''", n) + " == f"
	}, func(n int) string { return "return(true)" }},
	{"add-chain", func(n int) string {
		return "local a = 0 return a" + strings.Repeat("+1", n)
	}, func(n int) string { return fmt.Sprintf("return(%d)", n) }},
	{"concat-chain", func(n int) string {
		return "local a = 'x' return #(a" + strings.Repeat("..a", n) + ")"
	}, func(n int) string { return fmt.Sprintf("return(%d)", n+1) }},
	{"and-or-chain", func(n int) string {
		return "local a = false return a" + strings.Repeat(" or a", n) + " or 7"
	}, func(n int) string { return "return(7)" }},
	{"comparison-chain-parenthesised", func(n int) string {
		return "local a = 1 return " + strings.Repeat("-", n%2) + strings.Repeat("- -", n/2) + "a"
	}, nil},
	// a caught overflow leaves nothing behind: the depth that can be reached is the same afterwards
	{"overflow-storm-pcall", func(n int) string {
		return fmt.Sprintf("local function depth() local function r(k) local ok, v = pcall(r, k + 1) if ok then return v end return k end return r(1) end local d1 = depth() for i = 1, %d do depth() end return d1 == depth(), d1 > 50", n%40+1)
	}, func(n int) string { return "return(true,true)" }},
	{"overflow-storm-metamethod", func(n int) string {
		return fmt.Sprintf("local function depth() local d = 0 local t = setmetatable({}, {__index = function(t, k) d = d + 1 return t[k] end}) pcall(function() return t.x end) return d end local d1 = depth() for i = 1, %d do depth() end return d1 == depth(), d1 > 50", n%40+1)
	}, func(n int) string { return "return(true,true)" }},
	{"overflow-storm-gsub", func(n int) string {
		return fmt.Sprintf("local function depth() local d = 0 local function r() d = d + 1 return (string.gsub('a', 'a', r)) end pcall(r) return d end local d1 = depth() for i = 1, %d do depth() end return d1 == depth(), d1 > 50", n%40+1)
	}, func(n int) string { return "return(true,true)" }},
	{"index-metamethod-recursion", func(n int) string {
		return fmt.Sprintf("local d = 0 local t = setmetatable({}, {__index = function(t, k) d = d + 1 if d >= %d then return d end return t[k] end}) return t.x", n)
	}, func(n int) string { return fmt.Sprintf("return(%d)", n) }},
	{"tostring-metamethod-recursion", func(n int) string {
		return fmt.Sprintf("local d = 0 local t t = setmetatable({}, {__tostring = function() d = d + 1 if d >= %d then return 'x' end return tostring(t) end}) return tostring(t)", n)
	}, func(n int) string { return `return("x")` }},
	{"coroutine-nesting", func(n int) string {
		return fmt.Sprintf("local function f(k) if k == 0 then return 0 end return 1 + coroutine.wrap(f)(k - 1) end return f(%d)", n)
	}, func(n int) string { return fmt.Sprintf("return(%d)", n) }},
	{"finaliser-coroutine-ops", func(n int) string {
		// finalisers (run by collectgarbage or when the limited context ends) that resume a generator,
		// close a suspended coroutine, try to yield and start a coroutine of their own
		return fmt.Sprintf(`local gen = coroutine.wrap(function() while true do coroutine.yield(1) end end)
local seen = 0
for i = 1, %d do
  local co = coroutine.create(function() coroutine.yield() end) coroutine.resume(co)
  setmetatable({}, {__gc = function() seen = seen + gen() coroutine.close(co) pcall(coroutine.yield) seen = seen + coroutine.wrap(function() return 0 end)() end})
end
collectgarbage() collectgarbage()
return %[1]d`, n)
	}, func(n int) string { return fmt.Sprintf("return(%d)", n) }},
	{"load-nesting", func(n int) string {
		return fmt.Sprintf("local function f(k) if k == 0 then return 0 end return 1 + load('return ...')(f(k - 1)) end return f(%d)", n)
	}, func(n int) string { return fmt.Sprintf("return(%d)", n) }},
	{"table-constructor-vararg", func(n int) string {
		return "local function f(...) local t = {" + strings.Repeat("1,", n) + "...} return #t end return f(7, 8)"
	}, func(n int) string { return fmt.Sprintf("return(%d)", n+2) }},
	{"vararg-multi-assign", func(n int) string {
		var b strings.Builder
		b.WriteString("local function f(...) local v0")
		for i := 1; i < n; i++ {
			fmt.Fprintf(&b, ", v%d", i)
		}
		b.WriteString(" = ... return v0 end return f(5)")
		return b.String()
	}, func(n int) string { return "return(5)" }},
	{"tbc-count", func(n int) string {
		var b strings.Builder
		for i := 0; i < n; i++ {
			fmt.Fprintf(&b, "local c%d <close> = nil\n", i)
		}
		b.WriteString("return 1")
		return b.String()
	}, func(n int) string { return "return(1)" }},
	{"call-results", func(n int) string {
		return "local function f() return " + strings.Repeat("1,", n) + "1 end return select('#', f())"
	}, func(n int) string { return fmt.Sprintf("return(%d)", n+1) }},
	{"nested-tables", func(n int) string {
		return "local t = " + strings.Repeat("{", n) + strings.Repeat("}", n) + " return type(t)"
	}, func(n int) string { return `return("table")` }},
	{"unary-minus-chain", func(n int) string { return "local x = 1 return " + strings.Repeat("- ", n) + "x" }, func(n int) string {
		if n%2 == 0 {
			return "return(1)"
		}
		return "return(-1)"
	}},
	{"long-string", func(n int) string { return `return #"` + strings.Repeat("ab", n) + `"` }, func(n int) string { return fmt.Sprintf("return(%d)", 2*n) }},
	{"long-comment-levels", func(n int) string {
		eq := strings.Repeat("=", n)
		return "--[" + eq + "[ x ]" + eq + "]\nreturn #[" + eq + "[ab]" + eq + "]"
	}, func(n int) string { return "return(2)" }},
}

func runCrash(ctx *core.RunCtx) {
	g := ctx.Gen
	mode := ctx.Mode
	s := core.NewSched(core.ReplayTape(nil), 0)
	log := core.GetLog()
	defer core.PutLog(log)
	s.Begin()
	h := harness.NewHost(s, log)
	defer func() {
		s.Reap(h.R.MainThread())
		h.Close()
		s.End()
		s.Release()
	}()
	lim := rt.RuntimeResources{Cpu: []uint64{2000, 50000, 2000000}[g.Choose(3)] + uint64(g.Choose(997)), Memory: []uint64{30000, 1000000, 50000000}[g.Choose(3)] + uint64(g.Choose(997))}
	ctx.Trivial = false
	failP := func(what string, pan interface{}, where string) {
		ctx.Fail("C04", "C04.R1", "panic:"+what, "Go panic escaped (%v); %s", core.Scrub(fmt.Sprint(pan)), where)
	}
	switch mode {
	case "src":
		var src string
		if g.Chance(1, 2) {
			src, _ = genRich(g, richOpts{NoGC: true, AllowYield: true, NoYieldInProtected: true})
		} else {
			src = renderProgram(genSim(g, simOpts{mode: "close", coro: true, closeRun: true}))
		}
		bad, ops := corrupt(g, src)
		ctx.Sample = "-- corruption: " + ops + "\n" + bad
		ctx.Shape = core.HashString(bad)
		ctx.Count("fault.byte-flip/truncate/splice", 1)
		_, out := h.RunInContext(rt.RuntimeContextDef{HardLimits: lim}, "sim", bad)
		if out.Panic != nil {
			failP("corrupted-source", out.Panic, "corruption: "+ops)
			return
		}
		if out.Err != nil {
			ctx.Count("outcome.error", 1)
		} else {
			ctx.Count("outcome.ran", 1)
		}
	case "nolimit":
		// no limit at all: sizes that no allocator can serve must come back as errors, not as panics of
		// the allocator (which pcall does not catch, and which end the process when they happen in a
		// coroutine); sizes that merely exceed the memory of the machine are not tried - Go cannot
		// recover from running out of memory and the property is about resource-limited contexts
		huge := []string{"math.maxinteger", "math.maxinteger // 2", "1 << 62", "1 << 61", "(1 << 48) + 1", "1 << 56", "math.mininteger", "-1"}[g.Choose(8)]
		calls := []string{
			`string.rep("a", N)`, `string.rep("ab", N, "")`, `string.rep("", N, "ab")`, `string.rep("a", N, "b")`, `("x"):rep(N // 2, "yz")`,
			`io.stdout:setvbuf("full", N)`, `io.stderr:setvbuf("line", N)`, `string.format("%" .. N .. "d", 1)`, `string.format("%." .. N .. "f", 1)`,
			`table.concat({"a", "b"}, ("s"):rep(10), 1, N)`, `table.unpack({}, 1, N)`, `table.unpack({}, -N, N)`, `utf8.char(N)`, `string.char(N)`, `("x"):sub(-N, N)`, `("x"):byte(-N, N)`, `io.read(N)`, `io.lines("/dev/null", N)`,
			`select(N, 1)`, `math.random(N)`, `string.unpack("c" .. N, "x")`, `utf8.codepoint("x", 1, N)`, `tostring(setmetatable({}, {__name = ("n"):rep(100)}))`, `load(("x"):rep(100), ("n"):rep(100))`,
		}
		c := calls[g.Choose(len(calls))]
		wrapk := g.Choose(3)
		src := `local N = ` + huge + ` return pcall(function() return ` + c + ` end)`
		switch wrapk {
		case 1:
			src = `local N = ` + huge + ` return coroutine.wrap(function() return pcall(function() return ` + c + ` end) end)()`
		case 2:
			src = `local N = ` + huge + ` local co = coroutine.create(function() return ` + c + ` end) return coroutine.resume(co)`
		}
		ctx.Sample = src
		ctx.Shape = core.HashString(src)
		ctx.Count("fault.size no allocator can serve, no limit in force", 1)
		out := h.Run("nolimit", src)
		if out.Panic != nil {
			failP("absurd-size", out.Panic, c+" with N = "+huge)
			return
		}
	case "pkg":
		// the package library keeps its state in tables any program can overwrite: whatever they hold,
		// require / searchpath / the searchers end in a value or an error (run without limits: these
		// functions do not declare any compliance)
		sets := []string{`package.preload = %s`, `package.loaded = %s`, `package.searchers = %s`, `package.searchers = {%s}`, `package.path = %s`, `package.cpath = %s`, `package.config = %s`,
			`package.searchers[1] = %s`, `package.searchers[2] = %s`, `package.preload.zz = %s`, `package.loaded.zz = %s`, `package.searchpath = %s`, `package = %s`, `package.loaded._G = %s`, `package.loaded.string = %s`}
		vals := []string{"1", "nil", `"x"`, "true", "{}", "1.5", "print", "setmetatable({}, {__index = function() error('idx') end})", "coroutine.create(print)", "function() return 1, 2, 3 end", "function() return function() error({}) end end", `("?;"):rep(1000)`, `"\0"`, "io.stdout"}
		var src strings.Builder
		for i, k := 0, 1+g.Choose(3); i < k; i++ {
			fmt.Fprintf(&src, sets[g.Choose(len(sets))]+"\n", vals[g.Choose(len(vals))])
		}
		uses := []string{`return pcall(require, "zz")`, `return pcall(require, "string")`, `return pcall(package.searchpath or print, "zz", package.path or "?")`, `return pcall(require, 1)`, `return pcall(require, "a.b.c")`,
			`local ok, s = pcall(function() return package.searchers[1]("zz") end) return ok`, `local ok, s = pcall(function() return package.searchers[2]("zz") end) return ok`, `return pcall(dofile, "/nonexistent")`, `return pcall(loadfile, "/nonexistent", 1, 2)`}
		src.WriteString(uses[g.Choose(len(uses))])
		ctx.Sample = src.String()
		ctx.Shape = core.HashString(ctx.Sample)
		ctx.Count("fault.package table overwritten", 1)
		out := h.Run("pkg", ctx.Sample)
		if out.Panic != nil {
			failP("package-state", out.Panic, "package tables overwritten by the program")
			return
		}
	case "bin":
		// binary chunks: string.dump of a generated program, 1-4 bytes corrupted (length fields, counts,
		// type tags, opcodes alike), handed back to load() under limits.  Only loading is judged - what
		// corrupted byte code does when it is run is outside every property (the manual says as much) -
		// and loading has to end in a function, an error or a kill: no panic, no allocation sized by a
		// made-up length field.
		var src string
		if g.Chance(1, 2) {
			src, _ = genRich(g, richOpts{NoGC: true, AllowYield: true, NoYieldInProtected: true})
		} else {
			src = renderProgram(genSim(g, simOpts{mode: "close", coro: true, closeRun: true}))
		}
		clos, cerr, cpan := h.Compile("sim", src)
		if cpan != nil {
			failP("compile", cpan, "valid generated program")
			return
		}
		if cerr != nil {
			return
		}
		strlib := h.R.GlobalEnv().Get(rt.StringValue("string")).AsTable()
		d := h.Call(strlib.Get(rt.StringValue("dump")), rt.FunctionValue(clos))
		if d.Panic != nil || d.Err != nil || len(d.Values) != 1 {
			ctx.Fail("C04", "C04.H", "harness", "string.dump failed: %s", d.String())
			return
		}
		dumped, _ := d.Values[0].TryString()
		bad, ops := corrupt(g, dumped)
		if g.Chance(1, 3) && len(dumped) > 16 {
			// aim at an 8-byte little-endian length field: make it huge
			pos := g.Choose(len(dumped) - 8)
			b := []byte(dumped)
			copy(b[pos:], []byte{0xff, 0xff, 0xff, 0xff, 0xff, 0xff, 0xff, []byte{0x7f, 0xff, 0x00, 0x3f}[g.Choose(4)]})
			bad, ops = string(b), fmt.Sprintf("huge-length@%d", pos)
		}
		if g.Chance(1, 25) {
			// a chunk made by hand: functions nested in one another through their constants, far deeper
			// than any source could be (each level: empty source name, name, code, lines; one constant,
			// which is a function)
			n := []int{300, 5000, 200000}[g.Choose(3)]
			if g.Chance(1, 24) {
				n = 3000000 // 120 MB of input: rare
			}
			level := "\x00\x00\x00\x00\x00\x00\x00\x00" + "\x00\x00\x00\x00\x00\x00\x00\x00" + "\x00\x00\x00\x00\x00\x00\x00\x00" + "\x00\x00\x00\x00\x00\x00\x00\x00" + "\x01\x00\x00\x00\x00\x00\x00\x00" + "\x05"
			bad, ops = "\x06\x00\x04\x05"+strings.Repeat(level, n), fmt.Sprintf("hand-made nesting of %d functions", n)
		}
		ctx.Sample = fmt.Sprintf("-- binary chunk of %d bytes, corruption: %s\n%s", len(dumped), ops, src)
		ctx.Shape = core.HashString(bad)
		ctx.Count("fault.binary-chunk corruption", 1)
		lim = rt.RuntimeResources{Cpu: 2000000, Memory: []uint64{100000, 1000000}[g.Choose(2)] + uint64(g.Choose(997))}
		if len(bad) > 50000 {
			lim = rt.RuntimeResources{Cpu: 4000000000, Memory: 8000000000} // big enough not to stop the loading early
		}
		var ms0, ms1 goruntime.MemStats
		goruntime.ReadMemStats(&ms0)
		if ms0.HeapAlloc > 24<<20 {
			goruntime.GC()
			goruntime.ReadMemStats(&ms0)
		}
		var pan interface{}
		term := rt.NewTerminationWith(nil, 0, true)
		func() {
			defer func() { pan = recover() }()
			h.R.MainThread().CallContext(rt.RuntimeContextDef{HardLimits: lim}, func() error {
				return rt.Call(h.R.MainThread(), h.R.GlobalEnv().Get(rt.StringValue("load")), []rt.Value{rt.StringValue(bad), rt.StringValue("x"), rt.StringValue("b")}, term)
			})
		}()
		if pan != nil {
			failP("load-binary", pan, "corruption: "+ops)
			return
		}
		goruntime.ReadMemStats(&ms1)
		if ms1.HeapSys > ms0.HeapSys && ms1.HeapSys-ms0.HeapSys > 64*lim.Memory+128<<20 {
			ctx.Fail("C06", "C06.M3", "heap-growth:load-binary", "loading a corrupted binary chunk of %d bytes grew the Go heap by %d bytes under memory limit %d (%s)", len(bad), ms1.HeapSys-ms0.HeapSys, lim.Memory, ops)
			return
		}
	case "lib", "lib-amp":
		// lib-amp: the same grid with size arguments far beyond the memory limit; what comes back must
		// fit under the limit (C06 M3) and come back promptly (C05 K6)
		amp := mode == "lib-amp"
		if amp {
			lim = rt.RuntimeResources{Cpu: []uint64{100000, 1000000}[g.Choose(2)] + uint64(g.Choose(97)), Memory: []uint64{30000, 200000, 1000000}[g.Choose(3)] + uint64(g.Choose(997))}
		}
		os.Chdir(os.TempDir())
		fns := collectGoFunctions(h)
		sp := h.Run("sp", crashSpecials)
		if sp.Err != nil || sp.Panic != nil {
			ctx.Fail("C04", "C04.H", "harness", "specials chunk failed: %s", sp.String())
			return
		}
		var fn goFn
		for tries := 0; tries < 20; tries++ {
			fn = fns[g.Choose(len(fns))]
			if !crashSkip[fn.path] {
				break
			}
		}
		if crashSkip[fn.path] {
			return
		}
		nargs := g.Weighted(1, 3, 4, 3, 2)
		var args []rt.Value
		var desc []string
		if (strings.Contains(fn.path, "string") || strings.Contains(fn.path, "utf8")) && g.Chance(1, 2) {
			// (subject, pattern-or-format, position, position): the shape these functions expect
			subj := []string{"", "a", "abc", "hello world", "aaaa", "\xe2\x82\xac", "%d", "x=1, y=2"}[g.Choose(8)]
			pats := []string{"^a*", "a*", ".", "^", "$", "(a)(b)", "%w+", "()", "a-", "[a-c]", "%d+", "^(.-)$", "%f[%w]", "%bxy", "(", "%", "[", "%1", ".-b", "x*"}
			args = append(args, rt.StringValue(subj), rt.StringValue(pats[g.Choose(len(pats))]))
			desc = append(desc, fmt.Sprintf("%q", subj), "pattern")
			for i := 0; i < g.Choose(3); i++ {
				n := int64(g.Choose(24) - 8)
				args = append(args, rt.IntValue(n))
				desc = append(desc, fmt.Sprint(n))
			}
			desc[1] = fmt.Sprintf("%q", args[1].AsString())
			nargs = 0
		}
		if strings.Contains(fn.path, "pack") && g.Chance(2, 3) {
			// (format, data, position): length prefixes and sizes at their limits
			fmts := []string{"s", "s1", "s2", "s4", "s8", "s16", "z", "c0", "c1", "c10", "i1", "i3", "i8", "i16", "I16", "j", "J", "T", "f", "d", "n", "<s4", ">s4", "=s", "!8s", "s s", "i4s4", "Xs", "!2 Xi8 s", "s8s8", "zs", "<I8", ">j"}
			data := []string{"\xff\xff\xff\xff\xff\xff\xff\xff", "\xff\xff\xff\xff\xff\xff\xff\x7f", "\x00\x00\x00\x00\x00\x00\x00\x80", "\xff\xff\xff\xff", "\x05ab", "\x05abcde", "", "\x00", "abc\x00", strings.Repeat("\xff", 16), "\x01\x00\x00\x00\x00\x00\x00\x00a", "\xfe\xff\xff\xff\xff\xff\xff\x7fabc", strings.Repeat("\x80", 9)}
			args, desc = nil, nil
			f, d := fmts[g.Choose(len(fmts))], data[g.Choose(len(data))]
			args = append(args, rt.StringValue(f), rt.StringValue(d))
			desc = append(desc, fmt.Sprintf("%q", f), fmt.Sprintf("%q", d))
			if g.Chance(1, 3) {
				n := int64(g.Choose(16) - 3)
				args = append(args, rt.IntValue(n))
				desc = append(desc, fmt.Sprint(n))
			}
			nargs = 0
		}
		if strings.Contains(fn.path, "utf8") && g.Chance(1, 2) {
			// code points around every encoding-length boundary
			cps := []int64{0, 0x7F, 0x80, 0x7FF, 0x800, 0xD800, 0xFFFF, 0x10000, 0x10FFFF, 0x110000, 0x1FFFFF, 0x200000, 0x3FFFFFF, 0x4000000, 0x7FFFFFFF, 0x80000000, -1}
			args, desc = nil, nil
			for i := 0; i < 1+g.Choose(4); i++ {
				cp := cps[g.Choose(len(cps))]
				args = append(args, rt.IntValue(cp))
				desc = append(desc, fmt.Sprintf("0x%X", cp))
			}
			nargs = 0
		}
		argBytes := 0
		for i := 0; i < nargs; i++ {
			v, d := edgeValue(g, h, sp.Values)
			if amp && g.Chance(1, 2) {
				switch g.Choose(4) {
				case 0, 1:
					n := []int64{10000, 1000000, 100000000, 1 << 31, 1 << 40}[g.Choose(5)]
					v, d = rt.IntValue(n), fmt.Sprint(n)
				case 2:
					n := []int{10000, 100000}[g.Choose(2)]
					v, d = rt.StringValue(strings.Repeat([]string{"x", "ab", "%s", "a "}[g.Choose(4)], n)), fmt.Sprintf("string(%d units)", n)
				default:
					t := rt.NewTable()
					for k := 1; k <= 2000; k++ {
						t.Set(rt.IntValue(int64(k)), rt.StringValue("item"))
					}
					v, d = rt.TableValue(t), "table(2000 strings)"
				}
			}
			args = append(args, v)
			desc = append(desc, d)
		}
		for _, a := range args {
			if sv, ok := a.TryString(); ok {
				argBytes += len(sv)
			}
		}
		where := fmt.Sprintf("%s(%s) under kill=%v", fn.path, strings.Join(desc, ", "), lim)
		ctx.Sample = where
		ctx.Shape = core.HashString(where)
		ctx.Count("library calls", 1)
		var pan interface{}
		term := rt.NewTerminationWith(nil, 0, true)
		var ms0, ms1 goruntime.MemStats
		if amp {
			goruntime.ReadMemStats(&ms0)
			if ms0.HeapAlloc > 24<<20 {
				goruntime.GC()
				goruntime.ReadMemStats(&ms0)
			}
		}
		start := procCPU()
		func() {
			defer func() { pan = recover() }()
			h.R.MainThread().CallContext(rt.RuntimeContextDef{HardLimits: lim}, func() error {
				return rt.Call(h.R.MainThread(), fn.v, args, term)
			})
		}()
		if pan != nil {
			failP(fn.path, pan, where)
			return
		}
		if amp {
			wall := procCPU() - start
			goruntime.ReadMemStats(&ms1)
			for _, v := range term.Etc() {
				if sv, ok := v.TryString(); ok && uint64(len(sv)) >= lim.Memory+uint64(argBytes) {
					ctx.Fail("C06", "C06.M3", "value-exceeds-limit:"+fn.path, "the call returned a string of %d bytes under memory limit %d (string arguments: %d bytes); %s", len(sv), lim.Memory, argBytes, where)
					return
				}
			}
			if ms1.HeapSys > ms0.HeapSys && ms1.HeapSys-ms0.HeapSys > 64*lim.Memory+128<<20 {
				ctx.Fail("C06", "C06.M3", "heap-growth:"+fn.path, "the Go heap grew by %d bytes under memory limit %d; %s", ms1.HeapSys-ms0.HeapSys, lim.Memory, where)
				return
			}
			if wall > 10*time.Second {
				ctx.Fail("C05", "C05.K6", "slow:"+fn.path, "the call took %v of processor time under cpu limit %d; %s", wall, lim.Cpu, where)
				return
			}
		}
	case "ramp":
		r := ramps[g.Choose(len(ramps))]
		sizes := []int{1, 2, 10, 100, 250, 254, 255, 255, 256, 256, 257, 1000, 5000, 32767, 32768, 65535, 65536, 70000, 200000, 1000000}
		n := sizes[g.Choose(len(sizes))]
		if g.Chance(1, 3) {
			n += g.Choose(3) - 1
			if n < 1 {
				n = 1
			}
		}
		if (r.name == "locals-sum" || r.name == "upvalues" || r.name == "constants" || r.name == "if-chain") && n > 70000 {
			n = 70000 // compile time of these grows faster than linearly; bigger sizes only cost time
		}
		if ctx.Tier != "thorough" && n > 200000 {
			n = 200000
		}
		if (r.name == "coroutine-nesting" || r.name == "pcall-recursion" || r.name == "finaliser-coroutine-ops") && n > 1500 {
			n = 1500 // every level is a goroutine (coroutine) or several Go frames (pcall)
		}
		if r.name == "finaliser-coroutine-ops" && n > 300 {
			n = 300 // two coroutines for every finaliser, and the scheduler follows a bounded number of threads
		}
		src := r.gen(n)
		big := rt.RuntimeResources{Cpu: 100000000, Memory: 300000000}
		where := fmt.Sprintf("ramp %s N=%d (%d bytes of source)", r.name, n, len(src))
		ctx.Sample = where
		ctx.Shape = core.HashString(where)
		ctx.Count("ramp."+r.name, 1)
		c, out := h.RunInContext(rt.RuntimeContextDef{HardLimits: big}, "ramp", src)
		if out.Panic != nil {
			failP("ramp:"+r.name, out.Panic, where)
			return
		}
		switch {
		case c != nil && c.Status() == rt.StatusKilled:
			ctx.Count("outcome.killed", 1)
		case out.Err != nil:
			ctx.Count("outcome.error", 1)
		default:
			ctx.Count("outcome.value", 1)
			if r.want != nil && out.String() != r.want(n) {
				ctx.Fail("C04", "C04.R4", "wrong-value:"+r.name, "%s returned %s, expected %s (or an error)", where, out.String(), r.want(n))
				return
			}
		}
	}
}

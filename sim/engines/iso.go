//go:build verif

package engines

import (
	"fmt"
	"os"
	"strings"
	"sync"

	rt "github.com/arnodel/golua/runtime"

	"vsim/core"
	"vsim/harness"
)

// E-ISO (DESIGN §4 C20): N runtimes, each a simulator task running a program that
// also mutates everything mutable (globals, library functions, string
// metatable, metatables of basic types, random seed, package tables).  The
// scheduler interleaves them at host-callback granularity; runtime creation,
// library loading and Close are part of each task.  Oracle: the event log of
// every runtime equals the log of the same program run alone; the race build
// adds "no data race" (the scheduler's parking is invisible to the detector).

func init() {
	core.Register(&core.Engine{Name: "iso", Run: runIso})
}

// isoOpts returns the runtime options of runtime i (0 = none).
func isoOpts(kind int) []rt.RuntimeOption {
	switch kind {
	case 1:
		return []rt.RuntimeOption{rt.WithRegSetMaxAge(1)}
	case 2:
		return []rt.RuntimeOption{rt.WithRuntimeContext(rt.RuntimeContextDef{HardLimits: rt.RuntimeResources{Cpu: 1500}})}
	case 3:
		return []rt.RuntimeOption{rt.WithRuntimeContext(rt.RuntimeContextDef{HardLimits: rt.RuntimeResources{Memory: 40000}, RequiredFlags: rt.ComplyIoSafe})}
	}
	return nil
}

func runOne(src string, s *core.Sched, id int, log *core.Log, opt int) ([]string, string) {
	h := harness.NewHost(s, log, isoOpts(opt)...)
	h.ID = id
	out := h.Run("sim", src)
	ev := log.Events()
	if s != nil {
		s.Yield()
	}
	h.Close()
	return ev, out.String()
}

// runSolo runs one program alone, under a scheduler of its own following the
// natural schedule (every goroutine golua creates must belong to a scheduler).
func runSolo(src string, id int, opt int) ([]string, string) {
	s := core.NewSched(core.ReplayTape(nil), 200000)
	log := core.GetLog()
	defer core.PutLog(log)
	s.Begin()
	ev, out := runOne(src, s, id, log, opt)
	s.End()
	s.Release()
	return ev, out
}

// runIsoParallel: the runtimes really run concurrently, each on its own goroutine, with no
// scheduler (this mode is used only by worker processes that never install one).  It is not
// replayable: only data race reports (sound by construction) and repeatable differences count.
func runIsoParallel(ctx *core.RunCtx, srcs []string) {
	n := len(srcs)
	solo := make([][]string, n)
	soloOut := make([]string, n)
	logs := make([]*core.Log, n)
	for i := range srcs {
		logs[i] = &core.Log{}
		solo[i], soloOut[i] = runOne(srcs[i], nil, i+1, logs[i], 0)
		logs[i] = &core.Log{}
	}
	got := make([][]string, n)
	gotOut := make([]string, n)
	var wg sync.WaitGroup
	for i := range srcs {
		i := i
		wg.Add(1)
		go func() {
			defer wg.Done()
			got[i], gotOut[i] = runOne(srcs[i], nil, i+1, logs[i], 0)
		}()
	}
	wg.Wait()
	ctx.Trivial = false
	ctx.Shape = core.HashString(ctx.Sample)
	ctx.Count("runtimes run in parallel", int64(n))
	for i := range srcs {
		if strings.Contains(gotOut[i], "PANIC(") && !strings.Contains(gotOut[i], "TERMINATION") {
			ctx.Fail("C20", "C20.P", "panic", "runtime %d: Go panic escaped: %s", i+1, gotOut[i])
			return
		}
		if d := firstDiff(got[i], solo[i]); d >= 0 {
			ctx.Fail("C20", "C20.S1", "log-differs-from-solo:"+tagOf(at(solo[i], d)), "runtime %d of %d (parallel): event #%d is %s but %s when run alone", i+1, n, d, at(got[i], d), at(solo[i], d))
			return
		}
	}
}

// isoFirstUse are snippets exercising what a library may set up on first use.
var isoFirstUse = []string{
	`emit("fu1", ("a.b-c(d)+e*f?g[h]^i$j%k"):gsub("[%.%-%(%)%+%*%?%[%]%^%$%%]", "_")); probe(0); emit("fu1b", ("x=1;y=2"):match("^(%w+)%=(%d+)%;"))`,
	`emit("fu2", string.format("%5.2f|%-4d|%q|%x|%g|%s", 1.5, 7, "a\nb", 255, 1e20, nil)); probe(0); emit("fu2b", string.pack("<i4 >I2 z s1", 1, 2, "a", "b"):byte(1, -1))`,
	`emit("fu3", tostring(1.5), tostring(1e100), tostring(-0.0), tostring(2^63), math.tointeger("8"), tonumber("0x1p4"), tonumber("1e2")); probe(0); emit("fu3b", utf8.char(72, 228, 8364, 128512), utf8.len("häé"))`,
	`emit("fu4", type(os.time()), type(os.clock()), os.date("!%Y-%m-%d %H:%M:%S", 86400), os.date("!*t", 0).year); probe(0); emit("fu4b", os.time({year = 2000, month = 1, day = 1, hour = 12}) ~= nil)`,
	`emit("fu5", pcall(load, "return 1 +")); probe(0); emit("fu5b", load("return ...", "c", "t", {})(3)); emit("fu5c", select("#", table.unpack({1, 2, nil, 4}, 1, 4)), table.concat({1, 2, 3}, ","))`,
	`local t = {5, 2, 8, 1}; table.sort(t, function(a, b) return a > b end); probe(0); emit("fu6", table.concat(t, " "), #string.rep("ab", 3, "-"), ("abc"):reverse(), ("x"):byte(), math.max(1, 2.5), math.floor(-0.5), 7 // 2, 2^0.5 > 1.41)`,
	`emit("fu7", math.type(math.random(10)), math.random() < 1); probe(0); emit("fu7b", type(package.path), type(package.config), package.searchpath("no.such", "./?.x") == nil, type(require))`,
	`emit("fu9", runtime.context().flags, runtime.context().status); probe(0); local c9, f9 = runtime.callcontext({flags = "cpusafe iosafe"}, function() probe(0) return runtime.context().flags end); emit("fu9b", c9.status, f9, c9.flags)`,
	`local c10, e10 = runtime.callcontext({flags = "iosafe memsafe"}, io.open, "/nonexistent/x"); probe(0); emit("fu10", c10.status, e10, c10.flags); emit("fu10b", select(2, runtime.callcontext({flags = "iosafe cpusafe"}, io.popen, "true")))`,
	`local co = coroutine.wrap(function(a) local b = coroutine.yield(a + 1) return b * 2 end); emit("fu8", co(1), co(5)); probe(0); emit("fu8b", coroutine.isyieldable(), select(2, coroutine.running()), pcall(error, setmetatable({}, {__tostring = function() return "E" end})))`,
}

func runIso(ctx *core.RunCtx) {
	g := ctx.Gen
	n := 2 + g.Choose(3)
	if ctx.Tier == "thorough" {
		n = 2 + g.Choose(5)
	}
	srcs := make([]string, n)
	feats := map[string]bool{}
	for i := range srcs {
		o := richOpts{NoGC: true, Mutating: true, NoCtx: g.Chance(1, 2), AllowYield: true, NoYieldInProtected: true, MaxStmts: 10}
		var f map[string]bool
		srcs[i], f = genRich(g, o)
		// scheduling points inside the random-number snippet
		srcs[i] = strings.ReplaceAll(srcs[i], "); local r", "); probe(0); local r")
		for k := range f {
			feats[k] = true
		}
	}
	if ctx.Mode == "fresh" {
		// the worker process is only a few runs old (small chunks): whatever golua initialises lazily or
		// memoises on first use is touched by every runtime, so that a first use shared between runtimes
		// - which happens once per process - falls inside an observed, interleaved run
		for i := range srcs {
			srcs[i] = isoFirstUse[g.Choose(len(isoFirstUse))] + "\n" + isoFirstUse[g.Choose(len(isoFirstUse))] + "\n" + srcs[i]
		}
	}
	ctx.Sample = strings.Join(srcs, "\n-- ==== next runtime ====\n")
	if ctx.Mode == "par" {
		runIsoParallel(ctx, srcs)
		return
	}
	// runtime options: most runtimes have none; those with options are created with the same ones in
	// both phases.  Solo runs of option-less runtimes come first, so that an option leaking into the
	// defaults shows up as a difference.
	opts := make([]int, n)
	for i := range opts {
		if g.Chance(1, 4) {
			opts[i] = 1 + g.Choose(3)
			ctx.Count("runtimes created with options", 1)
		}
	}
	// warnings go to os.Stderr as it is when a runtime is created: point it at a scratch file
	harness.KeepDefaultWarner = true
	defer func() { harness.KeepDefaultWarner = false }()
	realStderr := os.Stderr
	warnFile, _ := os.CreateTemp("/var/tmp", "vsim-warn-")
	if warnFile != nil {
		os.Stderr = warnFile
		defer func() {
			os.Stderr = realStderr
			warnFile.Close()
			os.Remove(warnFile.Name())
		}()
	}
	readWarnings := func() []string {
		if warnFile == nil {
			return nil
		}
		b, _ := os.ReadFile(warnFile.Name())
		warnFile.Truncate(0)
		warnFile.Seek(0, 0)
		lines := strings.Split(strings.TrimSpace(string(b)), "\n")
		sortStrings(lines)
		return lines
	}
	// solo runs (each under a scheduler of its own, one after the other)
	solo := make([][]string, n)
	soloOut := make([]string, n)
	var soloWarn []string
	doSolo := func() {
		for pass := 0; pass < 2; pass++ {
			for i := range srcs {
				if (opts[i] == 0) == (pass == 0) {
					solo[i], soloOut[i] = runSolo(srcs[i], i+1, opts[i])
				}
			}
		}
		soloWarn = readWarnings()
	}
	// In a fresh process the interleaved phase comes first: what is set up on first use is then set
	// up by tasks that run on different goroutines with nothing ordering them.
	interleavedFirst := ctx.Mode == "fresh"
	if !interleavedFirst {
		doSolo()
	}
	// interleaved
	s := core.NewSched(ctx.Sch, 200000)
	s.Begin()
	got := make([][]string, n)
	gotOut := make([]string, n)
	logs := make([]*core.Log, n) // allocated by the main task: tasks share nothing of the harness
	for i := range srcs {
		logs[i] = core.GetLog()
	}
	for i := range srcs {
		i := i
		s.Go(func() {
			got[i], gotOut[i] = runOne(srcs[i], s, i+1, logs[i], opts[i])
		})
	}
	leak := s.End()
	for _, l := range logs {
		core.PutLog(l)
	}
	st := s.Stats()
	s.Release()
	gotWarn := readWarnings()
	if interleavedFirst {
		doSolo()
	}
	ctx.Count("fault.handoff-order(non-default decisions)", int64(st.NonDefault))
	ctx.Count("runtimes", int64(n))
	for f := range feats {
		ctx.Count("feature."+f, 1)
	}
	ctx.Trivial = st.NonDefault == 0
	ctx.Shape = core.HashString(ctx.Sample) ^ st.SchedHash
	var all []string
	for i := range got {
		all = append(all, got[i]...)
	}
	ctx.LogHash = core.HashStrings(all)
	if leak != "" {
		ctx.Fail("C20", "C20.V7", "leak", "task leaked: %s", leak)
		return
	}
	if strings.Join(gotWarn, "\n") != strings.Join(soloWarn, "\n") {
		ctx.Fail("C20", "C20.S1", "warnings-differ-from-solo", "warnings written when interleaved %q differ from the warnings of the solo runs %q", gotWarn, soloWarn)
		return
	}
	for i := range srcs {
		if strings.Contains(gotOut[i], "PANIC(") && !strings.Contains(gotOut[i], "TERMINATION") {
			ctx.Fail("C20", "C20.P", "panic", "runtime %d: Go panic escaped: %s", i+1, gotOut[i])
			return
		}
		if d := firstDiff(got[i], solo[i]); d >= 0 {
			ctx.Fail("C20", "C20.S1", "log-differs-from-solo:"+tagOf(at(solo[i], d)), "runtime %d of %d: event #%d is %s when interleaved with the others but %s when run alone", i+1, n, d, at(got[i], d), at(solo[i], d))
			return
		}
		if gotOut[i] != soloOut[i] {
			ctx.Fail("C20", "C20.S1", "outcome-differs-from-solo", "runtime %d of %d: outcome %s when interleaved, %s alone", i+1, n, gotOut[i], soloOut[i])
			return
		}
	}
}

func tagOf(ev string) string {
	f := strings.Fields(ev)
	for _, w := range f {
		if strings.HasPrefix(w, `"`) {
			t := strings.Trim(w, `"`)
			return strings.TrimRight(t, "0123456789")
		}
	}
	return fmt.Sprint(len(f))
}

//go:build verif

package engines

import (
	"fmt"
	"strings"

	"vsim/core"
	"vsim/harness"
)

// E-ISO (DESIGN §4 C20): N runtimes, each a simulator task running a program that
// also mutates everything mutable (globals, library functions, string
// metatable, metatables of basic types, random seed, package tables).  The
// scheduler interleaves them at host-callback granularity; runtime creation,
// library loading and Close are part of each task.  Oracle: the event log of
// every runtime equals the log of the same program run alone; the race build
// adds "no data race" (the scheduler's parking is invisible to the detector).

func init() {
	core.Register(&core.Engine{Name: "iso", Run: runIso})
}

func runOne(src string, s *core.Sched, id int, log *core.Log) ([]string, string) {
	h := harness.NewHost(s, log)
	h.ID = id
	out := h.Run("sim", src)
	ev := log.Events()
	s.Yield()
	h.Close()
	return ev, out.String()
}

// runSolo runs one program alone, under a scheduler of its own following the
// natural schedule (every goroutine golua creates must belong to a scheduler).
func runSolo(src string, id int) ([]string, string) {
	s := core.NewSched(core.ReplayTape(nil), 200000)
	log := core.GetLog()
	defer core.PutLog(log)
	s.Begin()
	ev, out := runOne(src, s, id, log)
	s.End()
	s.Release()
	return ev, out
}

func runIso(ctx *core.RunCtx) {
	g := ctx.Gen
	n := 2 + g.Choose(3)
	srcs := make([]string, n)
	feats := map[string]bool{}
	for i := range srcs {
		o := richOpts{NoGC: true, Mutating: true, NoCtx: g.Chance(1, 2), AllowYield: true, NoYieldInProtected: true, MaxStmts: 10}
		var f map[string]bool
		srcs[i], f = genRich(g, o)
		// scheduling points inside the random-number snippet
		srcs[i] = strings.ReplaceAll(srcs[i], "); local r", "); probe(0); local r")
		for k := range f {
			feats[k] = true
		}
	}
	ctx.Sample = strings.Join(srcs, "\n-- ==== next runtime ====\n")
	// solo runs (no scheduler, one after the other)
	solo := make([][]string, n)
	soloOut := make([]string, n)
	for i := range srcs {
		solo[i], soloOut[i] = runSolo(srcs[i], i+1)
	}
	// interleaved
	s := core.NewSched(ctx.Sch, 200000)
	s.Begin()
	got := make([][]string, n)
	gotOut := make([]string, n)
	logs := make([]*core.Log, n) // allocated by the main task: tasks share nothing of the harness
	for i := range srcs {
		logs[i] = core.GetLog()
	}
	for i := range srcs {
		i := i
		s.Go(func() {
			got[i], gotOut[i] = runOne(srcs[i], s, i+1, logs[i])
		})
	}
	leak := s.End()
	for _, l := range logs {
		core.PutLog(l)
	}
	st := s.Stats()
	s.Release()
	ctx.Count("fault.handoff-order(non-default decisions)", int64(st.NonDefault))
	ctx.Count("runtimes", int64(n))
	for f := range feats {
		ctx.Count("feature."+f, 1)
	}
	ctx.Trivial = st.NonDefault == 0
	ctx.Shape = core.HashString(ctx.Sample) ^ st.SchedHash
	var all []string
	for i := range got {
		all = append(all, got[i]...)
	}
	ctx.LogHash = core.HashStrings(all)
	if leak != "" {
		ctx.Fail("C20", "C20.V7", "leak", "task leaked: %s", leak)
		return
	}
	for i := range srcs {
		if strings.Contains(gotOut[i], "PANIC") {
			ctx.Fail("C20", "C20.P", "panic", "runtime %d: Go panic escaped: %s", i+1, gotOut[i])
			return
		}
		if d := firstDiff(got[i], solo[i]); d >= 0 {
			ctx.Fail("C20", "C20.S1", "log-differs-from-solo:"+tagOf(at(solo[i], d)), "runtime %d of %d: event #%d is %s when interleaved with the others but %s when run alone", i+1, n, d, at(got[i], d), at(solo[i], d))
			return
		}
		if gotOut[i] != soloOut[i] {
			ctx.Fail("C20", "C20.S1", "outcome-differs-from-solo", "runtime %d of %d: outcome %s when interleaved, %s alone", i+1, n, gotOut[i], soloOut[i])
			return
		}
	}
}

func tagOf(ev string) string {
	f := strings.Fields(ev)
	for _, w := range f {
		if strings.HasPrefix(w, `"`) {
			t := strings.Trim(w, `"`)
			return strings.TrimRight(t, "0123456789")
		}
	}
	return fmt.Sprint(len(f))
}

//go:build verif

package engines

import (
	"fmt"
	"strings"

	"vsim/core"
)

// G-rich (DESIGN §3): grammar-based generator of ordinary, terminating,
// deterministic Lua with no reference model.  Its runs are only ever compared
// with other runs of the same program (other limit, build, schedule, neighbour).
// Nothing it emits depends on pairs order, addresses or the clock.

type richOpts struct {
	NoCtx      bool // no explicit runtime.callcontext (needed for the exact K1 oracle)
	NoRuntime  bool // do not use the runtime library at all (noquotas builds)
	NoCoro     bool
	NoGC       bool // no __gc / collectgarbage
	Mutating   bool // also mutate globals / metatables / random seed (E-ISO)
	MaxStmts   int
	AllowYield bool
	// NoYieldInProtected avoids coroutine.yield inside pcall/xpcall/callcontext
	// bodies (open finding: the context stack belongs to the runtime, not to the
	// thread, so such a yield leaves a context behind).
	NoYieldInProtected bool
}

type richGen struct {
	b     strings.Builder
	t     *core.Tape
	o     richOpts
	ind   int
	uid   int
	depth int
	left  int
	feat  map[string]bool
	inCo  int
	prot  int // nesting of protected-call bodies inside the current coroutine body
}

func (g *richGen) ln(format string, args ...interface{}) {
	g.b.WriteString(strings.Repeat(" ", g.ind*2))
	fmt.Fprintf(&g.b, format, args...)
	g.b.WriteByte('\n')
}

func (g *richGen) id() int { g.uid++; return g.uid }

func (g *richGen) num() int { return g.t.Choose(7) }

func (g *richGen) small() int { return 1 + g.t.Choose(4) }

func (g *richGen) str() string {
	words := []string{"", "a", "xy", "hello", "Lua54", "0x10", "  pad ", "é", "\\0z"}
	return `"` + words[g.t.Choose(len(words))] + `"`
}

func (g *richGen) sizeN() int {
	// sizes for library calls; mostly small, sometimes a few thousand
	switch g.t.Weighted(6, 3, 1) {
	case 0:
		return 1 + g.t.Choose(8)
	case 1:
		return 10 + g.t.Choose(90)
	default:
		return 500 + g.t.Choose(3000)
	}
}

const richPrelude = `local function mkc(k) return setmetatable({id=k}, {__close=function(o, e) emit("close", k, e) end}) end
local function keys(t) local ks = {} for k in pairs(t) do ks[#ks+1] = tostring(k) end table.sort(ks) return table.concat(ks, ",") end
local acc = 0
`

func (g *richGen) stmt() {
	g.left--
	if g.left < 0 {
		return
	}
	w := []int{6, 4, 4, 4, 3, 3, 3, 2, 2, 2, 2, 2, 1, 2, 1, 1}
	if g.depth >= 3 {
		w[4], w[5], w[6], w[7], w[11] = 0, 0, 0, 0, 0
	}
	if g.o.NoCoro {
		w[7] = 0
	}
	if g.o.NoCtx || g.o.NoRuntime {
		w[11] = 0
	}
	if g.inCo == 0 || !g.o.AllowYield || (g.o.NoYieldInProtected && g.prot > 0) {
		w[13] = 0
	}
	if g.o.NoGC {
		w[14] = 0
	}
	if !g.o.Mutating {
		w[15] = 0
	} else {
		w[15] = 5
	}
	n := g.id()
	switch g.t.Weighted(w...) {
	case 0: // arithmetic + emit
		ops := []string{"+", "-", "*", "//", "%", "&", "|", "~", "<<"}
		g.ln(`acc = (acc %s %d) %s %d; emit("a%d", acc)`, ops[g.t.Choose(len(ops))], 1+g.num(), ops[g.t.Choose(3)], g.num(), n)
	case 1: // string library
		g.feat["string"] = true
		switch g.t.Choose(7) {
		case 0:
			g.ln(`local s%d = string.rep(%s, %d, "-"); emit("s%d", #s%d, s%d:sub(1, 12))`, n, g.str(), g.sizeN(), n, n, n)
		case 1:
			g.ln(`local s%d = ""; for i = 1, %d do s%d = s%d .. i end; emit("s%d", #s%d)`, n, g.sizeN()%200+1, n, n, n, n)
		case 2:
			g.ln(`emit("s%d", string.format("%%5d|%%-6s|%%q|%%x|%%.3f", %d, %s, %s, %d, %d / 7))`, n, g.num(), g.str(), g.str(), 255*g.num(), g.num())
		case 3:
			g.ln(`emit("s%d", (string.gsub(string.rep("ab ", %d), "(%%w+)", "<%%1>")):sub(1, 20), string.find("hello world", "o w"), string.match("key=val", "(%%w+)=(%%w+)"))`, n, g.sizeN()%300+1)
		case 4:
			g.ln(`emit("s%d", string.upper(%s), string.reverse(%s), string.byte(%s, 1, -1))`, n, g.str(), g.str(), g.str())
		case 5:
			if g.t.Chance(1, 3) {
				// a payload of a few kB: packing, unpacking and dumping draw on a budget computed from
				// what the context has left
				g.ln(`do local big = ("p"):rep(%d) local pk = string.pack("s4", big) emit("s%d", #pk, #string.unpack("s4", pk), #string.dump(load("return '" .. big .. "'"))) end`, 1000+g.num()*300, n)
			} else {
				g.ln(`emit("s%d", #string.pack("i4zs2", %d, %s, %s), string.unpack("<i2", string.pack("<i2", %d)))`, n, g.num(), g.str(), g.str(), g.num())
			}
		case 6:
			g.ln(`local c%d = 0; for w in string.gmatch(string.rep("w%d ", %d), "%%a%%d") do c%d = c%d + 1 end; emit("s%d", c%d, utf8.char(72, 228, 8364), utf8.len("häh"))`, n, n%10, g.sizeN()%100+1, n, n, n, n)
		}
	case 2: // table library
		g.feat["table"] = true
		switch g.t.Choose(5) {
		case 0:
			g.ln(`local t%d = {}; for i = 1, %d do t%d[i] = (i * 7) %% 13 end; table.sort(t%d); emit("t%d", #t%d, t%d[1], t%d[#t%d], table.concat(t%d, ",", 1, math.min(5, #t%d)))`, n, g.sizeN()%400+1, n, n, n, n, n, n, n, n, n)
		case 1:
			g.ln(`local t%d = {%d, %d, %d}; table.insert(t%d, 2, "m"); table.insert(t%d, "e"); emit("t%d", table.remove(t%d, 1), table.unpack(t%d))`, n, g.num(), g.num(), g.num(), n, n, n, n, n)
		case 2:
			g.ln(`local t%d = {x = %d, y = %s, [1] = true, [2.0] = "two", [%d] = "n"}; t%d.x = nil; emit("t%d", keys(t%d), #t%d, rawlen(t%d), next({}))`, n, g.num(), g.str(), 3+g.num(), n, n, n, n, n)
		case 3:
			g.ln(`local t%d = table.pack(select(%d, "a", "b", "c", "d", "e", "f", "g")); emit("t%d", t%d.n, select("#", table.unpack(t%d, 1, t%d.n)), table.move({1, 2, 3}, 1, 3, 2)[3])`, n, 1+g.num(), n, n, n, n)
		case 4:
			g.ln(`local t%d = {}; for i = %d, 1, -1 do t%d[i] = i end; for i = 1, %d do t%d[i] = nil end; emit("t%d", #t%d == 0 or t%d[#t%d] ~= nil)`, n, g.sizeN()%200+2, n, g.small(), n, n, n, n, n)
		}
	case 3: // closures / varargs / tail calls
		g.feat["closure"] = true
		switch g.t.Choose(3) {
		case 0:
			g.ln(`local function f%d(n, ...) if n == 0 then return select("#", ...), ... end return f%d(n - 1, n, ...) end; emit("f%d", f%d(%d))`, n, n, n, n, g.small()+g.num())
		case 1:
			g.ln(`local fs%d = {}; for i = 1, %d do fs%d[i] = function() acc = acc + i; return i end end; emit("f%d", fs%d[1](), fs%d[#fs%d](), acc)`, n, g.small(), n, n, n, n, n)
		case 2:
			g.ln(`local function rec%d(k) if k <= 0 then return 0 end return 1 + rec%d(k - 1) end; emit("f%d", rec%d(%d))`, n, n, n, n, g.sizeN()%150+1)
		}
	case 4: // loop block
		g.ln(`for i%d = 1, %d do`, n, g.small())
		g.block(1 + g.t.Choose(3))
		g.ln(`end`)
	case 5: // pcall / error / xpcall
		g.feat["pcall"] = true
		switch g.t.Choose(3) {
		case 0:
			g.ln(`emit("p%d", pcall(function()`, n)
			g.prot++
			g.block(1 + g.t.Choose(3))
			g.prot--
			if g.t.Chance(1, 2) {
				g.ind++
				g.ln(`error({id=%d})`, n)
				g.ind--
			}
			g.ln(`end))`)
		case 1:
			g.ln(`emit("p%d", xpcall(function()`, n)
			g.prot++
			g.block(1 + g.t.Choose(2))
			g.prot--
			g.ind++
			g.ln(`local z = nil; return z.field`)
			g.ind--
			g.ln(`end, function(m) emit("h%d", type(m)); return "handled" end))`, n)
		case 2:
			g.ln(`emit("p%d", pcall(error, %s, 0), pcall(string.rep), select("#", pcall(error)))`, n, g.str())
		}
	case 6: // function with tbc
		g.feat["tbc"] = true
		g.ln(`do`)
		g.ind++
		g.ln(`local x%d <close> = mkc(%d)`, n, n)
		g.ind--
		g.block(1 + g.t.Choose(2))
		g.ln(`end`)
	case 7: // coroutine generator
		g.feat["coroutine"] = true
		g.ln(`do local gen%d = coroutine.wrap(function(a)`, n)
		g.inCo++
		savedProt := g.prot
		g.prot = 0
		g.ind++
		g.ln(`for i = 1, %d do a = coroutine.yield(a + i) end`, g.small())
		g.ind--
		g.block(1 + g.t.Choose(2))
		g.prot = savedProt
		g.inCo--
		g.ln(`  return "fin" end)`)
		g.ln(`  for i = 1, %d do emit("g%d", pcall(gen%d, i)) end end`, 1+g.small(), n, n)
	case 8: // metamethods
		g.feat["meta"] = true
		switch g.t.Choose(3) {
		case 0:
			g.ln(`local m%d = setmetatable({}, {__index = function(t, k) return k .. "!" end, __call = function(self, a) return a, %d end, __len = function() return %d end}); emit("m%d", m%d.foo, m%d(%d), #m%d)`, n, g.num(), g.num(), n, n, n, g.num(), n)
		case 1:
			g.ln(`local V%d = {}; V%d.__index = V%d; V%d.__add = function(a, b) return setmetatable({v = a.v + b.v}, V%d) end; V%d.__eq = function(a, b) return a.v == b.v end; V%d.__lt = function(a, b) return a.v < b.v end; V%d.__concat = function(a, b) return "cat" end; V%d.__tostring = function(a) return "V(" .. a.v .. ")" end`, n, n, n, n, n, n, n, n, n)
			g.ln(`local a%d, b%d = setmetatable({v = %d}, V%d), setmetatable({v = %d}, V%d); emit("m%d", (a%d + b%d).v, a%d == b%d, a%d < b%d, a%d .. b%d, tostring(a%d))`, n, n, g.num(), n, g.num(), n, n, n, n, n, n, n, n, n, n, n)
		case 2:
			g.ln(`local log%d = {}; local p%d = setmetatable({}, {__newindex = function(t, k, v) log%d[#log%d + 1] = k; rawset(t, k, v) end}); p%d.a = 1; p%d.a = 2; p%d.b = 3; emit("m%d", table.concat(log%d, ","), p%d.a)`, n, n, n, n, n, n, n, n, n, n)
		}
	case 9: // load / dump
		g.feat["load"] = true
		switch g.t.Choose(3) {
		case 0:
			g.ln(`emit("l%d", load("local a, b = ... ; return (a or 0) + %d, b")(%d, %s))`, n, g.num(), g.num(), g.str())
		case 1:
			g.ln(`emit("l%d", load(string.dump(function(x) return x * %d, "k" end))(%d))`, n, 1+g.num(), g.num())
		case 2:
			g.ln(`emit("l%d", load("return +"), load("x ="), pcall(load, nil))`, n)
		}
	case 10: // math / tostring / tonumber
		g.ln(`emit("n%d", math.max(%d, %d.5), math.tointeger(%d.0), %d // 2, %d / 2, tostring(%d * 1.5), tonumber("0x%d"), math.type(%d), %d ~= %d.0, math.ult(-1, %d))`, n, g.num(), g.num(), g.num(), g.num(), g.num(), g.num(), g.num(), g.num(), g.num(), g.num(), g.num())
	case 11: // explicit nested context
		g.feat["callcontext"] = true
		kind, amt := "cpu", 100+g.t.Choose(20)*200
		if g.t.Chance(1, 2) {
			kind, amt = "memory", 2000+g.t.Choose(20)*3000
		}
		g.ln(`do local ctx%d = runtime.callcontext({kill={%s=%d}}, function()`, n, kind, amt)
		g.prot++
		g.block(1 + g.t.Choose(3))
		g.prot--
		g.ln(`end); emit("c%d", ctx%d.status) end`, n, n)
	case 12: // goto / while / repeat
		g.ln(`do local k%d = 0; ::top%d:: k%d = k%d + 1; if k%d < %d then goto top%d end; local r%d = 0; repeat r%d = r%d + 2 until r%d > %d; while k%d > 0 do k%d = k%d - 1 end; emit("w%d", k%d, r%d) end`, n, n, n, n, n, 1+g.small(), n, n, n, n, n, g.num(), n, n, n, n, n, n)
	case 13: // yield from inside a generator body
		g.ln(`coroutine.yield("mid%d")`, n)
	case 14: // finalizers
		g.feat["gc"] = true
		g.ln(`do local o%d = setmetatable({id=%d}, {__gc = function(o) emit("gc", o.id) end}); o%d = nil end`, n, n, n)
	case 15: // global state mutation (E-ISO)
		g.feat["mutate"] = true
		sub := g.t.Choose(12)
		switch sub {
		case 6:
			g.ln(`collectgarbage("stop"); probe(0); emit("gcstopped%d", collectgarbage("isrunning")); collectgarbage("restart"); probe(0); emit("gcrestarted%d", collectgarbage("isrunning"))`, n, n)
		case 8:
			if g.t.Chance(1, 2) {
				g.ln(`warn("@on"); probe(0); warn("w%d-", "a"); emit("x%d")`, n, n)
			} else {
				g.ln(`warn("quiet%d"); probe(0); warn("@off"); emit("x%d")`, n, n)
			}
		case 7:
			g.ln(`math.randomseed(%d); probe(0); local a%d = math.random(100000); probe(0); local b%d = math.random(100000); math.randomseed(%d); emit("x%d", a%d == math.random(100000), b%d == math.random(100000))`, n, n, n, n, n, n, n)
		case 0:
			g.ln(`string.upper = function(s) return "U" .. s end; emit("x%d", ("a"):upper())`, n)
		case 1:
			g.ln(`getmetatable("").__index = function(s, k) return "idx:" .. k end; emit("x%d", ("s").foo)`, n)
		case 2:
			g.ln(`math.randomseed(%d); local r%d = math.random(1000); math.randomseed(%d); emit("x%d", r%d == math.random(1000))`, n, n, n, n, n)
		case 3:
			g.ln(`G%d = %d; _G["emit2"] = emit; ipairs = nil; emit("x%d", G%d, ipairs == nil)`, n, n, n, n)
		case 4:
			g.ln(`debug.setmetatable(0, {__index = function(n, k) return k end}); emit("x%d", (5).foo); debug.setmetatable(nil, {__call = function() return "nilcall" end})`, n)
		case 5:
			g.ln(`package.path = "p%d"; package.loaded["m%d"] = %d; emit("x%d", require("m%d"), package.path)`, n, n, n, n, n)
		case 9: // a private package.config, used by a module search
			if g.t.Chance(1, 3) {
				// no config at all, and a directory separator given to the search itself
				g.ln(`package.config = nil; probe(0); emit("x%d", pcall(package.searchpath, "no.mod%d", "./?.lua;./?/x.lua", ".", "\\")); probe(0); emit("y%d", pcall(package.searchpath, "no.mod%d", "./?.lua"))`, n, n, n, n)
				break
			}
			g.ln(`package.config = "\\\n:\n#\n!\n-\n"; probe(0); emit("x%d", pcall(package.searchpath, "no.mod%d", "./#.lua:./#/x.lua"))`, n, n)
		case 10: // the defaults as every runtime sees them
			g.ln(`emit("x%d", package.config, select(2, package.searchpath("no.mod%d", "./?.lua;./?/x.lua")))`, n, n)
		case 11: // patterns with escaped punctuation (compiled per call)
			g.ln(`emit("x%d", ("a.b-c(d)%d"):find("%%.b%%-c%%(d%%)"), ("x+y*z"):gsub("[%%+%%*]", "%%%%"), ("k=v;"):match("^(%%w+)%%=(%%w+)%%;"))`, n, n)
		}
	}
}

func (g *richGen) block(n int) {
	g.ind++
	g.depth++
	for i := 0; i < n; i++ {
		g.stmt()
	}
	g.depth--
	g.ind--
}

// genRich returns a program and its feature set.
func genRich(t *core.Tape, o richOpts) (string, map[string]bool) {
	g := &richGen{t: t, o: o, feat: map[string]bool{}}
	max := o.MaxStmts
	if max == 0 {
		max = 14
	}
	g.left = 3 + t.Choose(max)
	g.b.WriteString(richPrelude)
	for g.left > 0 {
		g.stmt()
	}
	g.ln(`emit("done", acc)`)
	g.ln(`return acc`)
	return g.b.String(), g.feat
}

//go:build verif && !noquotas

package engines

import (
	"fmt"
	"os"
	"path/filepath"
	"regexp"
	"strconv"
	"strings"

	rt "github.com/arnodel/golua/runtime"

	"vsim/core"
	"vsim/harness"
)

// E-GC (DESIGN §4 C18, §2.5): finalisers and resource releases.  The pools
// register Go finalizers through a seam; the simulated collector keeps the real
// Go GC as the judge of reachability (the wrapper only moves an unreachable
// object to a limbo list) but decides itself, from the tape, when and in which
// order the pool's goFinalizer callback is delivered: at once, much later, in
// the middle of the program, after the pool or the runtime was closed.

func init() {
	core.Register(&core.Engine{Name: "gc", Run: runGC})
}

type udVal struct {
	id int64
	h  *harness.Host
}

func (u *udVal) ReleaseResources(d *rt.UserData) {
	u.h.Note(fmt.Sprintf("release %d", u.id))
}

type gcGen struct {
	b      strings.Builder
	t      *core.Tape
	ind    int
	nid    int
	budget int
	depth  int
	nctx   int
	files  bool
	cross  bool // allow re-marking from inside a nested limited context (open finding)
}

func (g *gcGen) ln(f string, a ...interface{}) {
	g.b.WriteString(strings.Repeat("  ", g.ind))
	fmt.Fprintf(&g.b, f, a...)
	g.b.WriteByte('\n')
}

const gcPrelude = `KEEP = {}
local function inctx() local k = runtime.context().kill return k.cpu ~= nil or k.millis ~= nil or k.memory ~= nil end
local function mk(id, res, spin)
  -- spin: inside a limited context the finaliser never returns, so the limit is reached (and the
  -- context killed) while a finaliser is running (where the only limit is a time limit the
  -- simulated clock has to move for that to happen: tick)
  local o = setmetatable({id = id}, {__gc = function(o) emit("gc", o.id, inctx()) if res then KEEP[#KEEP + 1] = o end if spin and inctx() then local k = runtime.context().kill while true do if k.cpu == nil then tick(1) end end end end})
  emit("mark", id)
  return o
end
local function mklate(id)
  -- the metatable gets its __gc after it was first attached: marked when it is attached again
  local mt = {}
  local o = setmetatable({id = id}, mt)
  mt.__gc = function(o) emit("gc", o.id, inctx()) end
  setmetatable(o, mt)
  emit("mark", id)
  return o
end
local function mkr(id)
  local mt
  mt = {__gc = function(o) o.n = o.n + 1 emit("gcr", o.id, o.n) if o.n == 1 then setmetatable(o, mt) emit("rearm", o.id) end end}
  local o = setmetatable({id = id, n = 0}, mt)
  emit("mark", id)
  return o
end
local function remark(o)
  setmetatable(o, {__gc = function(o) emit("gc2", o.id, inctx()) end})
  emit("mark", o.id)
end
local MAIN = coroutine.running()
local peekmt = {__gc = function(o) local tb = debug.traceback(MAIN, "tb", 0) for l = 0, 2 do debug.getinfo(MAIN, l, "Sl") end end}
local function unwind(n, every)
  if n == 0 then return 0 end
  local r = unwind(n - 1, every)
  setmetatable({}, peekmt)
  if n % every == 0 then collect(0) end
  return r + 1
end
local function ud(id, withgc)
  local u
  if withgc then u = mkud(id, function() emit("gc", id, inctx()) end) else u = mkud(id) end
  emit("mark", id)
  return u
end
`

func (g *gcGen) stmts(n int) {
	for i := 0; i < n; i++ {
		g.budget--
		if g.budget < 0 {
			return
		}
		w := []int{5, 3, 3, 3, 3, 2, 2, 2, 1, 3, 1, 2, 2, 1}
		if g.depth >= 1 {
			w[13] = 0
			w[10] = 0
			w[11] = 0 // the io library is not allowed under limits
			w[12] = 0
		}
		if g.depth >= 2 {
			w[6], w[7] = 0, 0
		}
		switch g.t.Weighted(w...) {
		case 0: // dropped table with finalizer
			g.nid++
			switch {
			case g.t.Chance(1, 5):
				g.ln(`do local o = mklate(%d) end  -- dropped`, g.nid)
			case g.depth >= 1 && g.t.Chance(1, 5):
				g.ln(`do local o = mk(%d, false, true) end  -- dropped, its finaliser spins`, g.nid)
			default:
				g.ln(`do local o = mk(%d) end  -- dropped`, g.nid)
			}
		case 1: // kept table
			g.nid++
			if g.t.Chance(1, 5) {
				g.ln(`KEEP[#KEEP + 1] = mklate(%d)  -- kept`, g.nid)
			} else {
				g.ln(`KEEP[#KEEP + 1] = mk(%d)  -- kept`, g.nid)
			}
		case 2: // dropped userdata (release, maybe gc)
			g.nid++
			g.ln(`do local u = ud(%d, %v) end  -- dropped`, g.nid, g.t.Chance(1, 2))
		case 3: // kept userdata
			g.nid++
			g.ln(`KEEP[#KEEP + 1] = ud(%d, %v)  -- kept`, g.nid, g.t.Chance(1, 2))
		case 4:
			g.ln(`collect(%d)`, g.t.Choose(4))
		case 5: // resurrecting table
			g.nid++
			g.ln(`do local o = mk(%d, true) end  -- dropped, resurrects itself`, g.nid)
		case 6: // limited context left normally or by error
			g.depth++
			exit := g.t.Choose(3)
			g.nctx++
			k := g.nctx
			g.ln(`emit("ctx", %d, runtime.callcontext({kill={cpu=100000}}, function()`, k)
			g.ind++
			g.ln(`emit("enter", %d)`, k)
			g.stmts(1 + g.t.Choose(4))
			if exit == 1 {
				g.ln(`error("boom")`)
			}
			g.ind--
			g.ln(`end).status)`)
			g.depth--
		case 7: // limited context that is killed
			g.depth++
			g.nctx++
			k := g.nctx
			g.ln(`emit("ctx", %d, runtime.callcontext({kill={cpu=%d}}, function()`, k, 2000+g.t.Choose(3000))
			g.ind++
			g.ln(`emit("enter", %d)`, k)
			g.stmts(1 + g.t.Choose(4))
			g.ln(`while true do end`)
			g.ind--
			g.ln(`end).status)`)
			g.depth--
		case 10: // a time-limited context whose time runs out while a nested context is running
			g.depth += 2
			g.nctx++
			k := g.nctx
			g.nctx++
			k2 := g.nctx
			g.ln(`emit("ctx", %d, runtime.callcontext({kill={millis=50}}, function()`, k)
			g.ind++
			g.ln(`emit("enter", %d)`, k)
			g.stmts(g.t.Choose(3))
			g.ln(`emit("ctx", %d, runtime.callcontext({kill={cpu=100000}}, function()`, k2)
			g.ind++
			g.ln(`emit("enter", %d)`, k2)
			g.stmts(1 + g.t.Choose(3))
			g.ln(`tick(%d)`, 60+g.t.Choose(100))
			g.ind--
			g.ln(`end).status)`)
			g.ln(`emit("after-inner")`)
			g.ind--
			g.ln(`end).status)`)
			g.depth -= 2
		case 9: // a value marked, then marked again later (new finalizer, new position in the order)
			g.nid++
			id := g.nid
			g.ln(`do local r%d = mk(%d)  -- remarked`, id, id)
			g.ind++
			g.stmts(1 + g.t.Choose(3))
			if g.cross && g.depth == 0 && g.t.Chance(1, 2) {
				// marked again from inside a limited context nested in the one that owns it (open finding:
				// the value then sits in both pools)
				g.nctx++
				g.ln(`KEEP[#KEEP + 1] = r%d  -- cross`, id)
				g.ln(`emit("ctx", %d, runtime.callcontext({kill={cpu=100000}}, function() emit("enter", %d) remark(r%d) end).status)`, g.nctx, g.nctx, id)
			} else {
				g.ln(`remark(r%d)`, id)
				if g.t.Chance(1, 2) {
					g.ln(`KEEP[#KEEP + 1] = r%d`, id)
				}
			}
			g.ind--
			g.ln(`end`)
		case 12: // a finaliser that arms itself again the first time it runs: one run per marking
			g.nid++
			if g.t.Chance(1, 3) {
				g.ln(`KEEP[#KEEP + 1] = mkr(%d)  -- kept rearm`, g.nid)
			} else {
				g.ln(`do local o = mkr(%d) end  -- dropped rearm`, g.nid)
				if g.t.Chance(2, 3) {
					g.ln(`collect(0)`)
				}
			}
		case 11: // files opened through the io library and never closed by the script
			g.files = true
			// (io.lines(name) is left out: golua keeps that file in a Go closure, not in a userdata, so the
			// property's release clause does not cover it - it stays open until read to the end)
			switch g.t.Choose(5) {
			case 0:
				g.ln(`io.input(FILE_IN)`)
			case 1:
				g.ln(`io.output(FILE_OUT)`)
			case 2:
				g.ln(`do local f = io.open(FILE_IN) end`)
			case 3:
				g.ln(`KEEP[#KEEP + 1] = io.open(FILE_IN)`)
			default:
				g.ln(`do local f = io.open(FILE_OUT, "a") f:write("x") end`)
			}
		case 13: // finalisers that look at the main thread's stack while it unwinds a deep recursion
			// (continuations are being handed back to their pool: what the main thread "is running" must
			// never be one of those); the values are anonymous and silent, the oracle does not follow them
			g.ln(`unwind(%d, %d)`, 40+g.t.Choose(200), 8+g.t.Choose(40))
		case 8: // unlimited context shares the pool of its parent
			g.depth++
			g.ln(`emit("sharedctx", runtime.callcontext({}, function()`)
			g.ind++
			g.stmts(1 + g.t.Choose(3))
			g.ind--
			g.ln(`end).status)`)
			g.depth--
		}
	}
}

var reEv = regexp.MustCompile(`^(?:emit "(mark|gc2|gcr|gc|rearm|enter|ctx|sharedctx)"(?: (\S+))?(?: (\S+))?|(release) (\d+)|(closing|closed))`)

func runGC(ctx *core.RunCtx) {
	g := &gcGen{t: ctx.Gen}
	g.cross = ctx.Gen.Choose(8) == 7
	g.budget = 6 + ctx.Gen.Choose(20)
	if ctx.Tier == "thorough" {
		g.budget = 6 + ctx.Gen.Choose(70)
	}
	g.b.WriteString(gcPrelude)
	g.stmts(3 + ctx.Gen.Choose(8))
	g.ln(`emit("end")`)
	src := g.b.String()
	ctx.Sample = src
	if os.Getenv("VSIM_DUMP") != "" {
		fmt.Fprintf(os.Stderr, "---- gc program ----\n%s\n----\n", src)
	}

	col := &collector{}
	rt.VerifSetFinalizerFunc(col.setFinalizer)
	defer rt.VerifSetFinalizerFunc(nil)
	s := core.NewSched(core.ReplayTape(nil), 100000)
	log := core.GetLog()
	defer core.PutLog(log)
	s.Begin()
	h := harness.NewHost(s, log)
	sch := ctx.Sch
	delivered := 0
	deliverSome := func(max int) {
		for i := 0; i < max; i++ {
			n := col.pending()
			if n == 0 {
				return
			}
			col.deliver(sch.Choose(n))
			delivered++
		}
	}
	h.Def("mkud", func(t *rt.Thread, c *rt.GoCont) (rt.Cont, error) {
		id, _ := c.Arg(0).TryInt()
		meta := rt.NewTable()
		if c.NArgs() > 1 && !c.Arg(1).IsNil() {
			t.SetTable(meta, rt.StringValue("__gc"), c.Arg(1))
		}
		v := t.NewUserDataValue(&udVal{id: id, h: h}, meta)
		return c.PushingNext1(t.Runtime, v), nil
	}, 2, false)
	clock := &core.Clock{}
	clock.Advance(1_700_000_000_000)
	core.InstallClock(clock)
	defer core.InstallClock(nil)
	h.Def("tick", func(t *rt.Thread, c *rt.GoCont) (rt.Cont, error) {
		n, _ := c.Arg(0).TryInt()
		clock.Advance(uint64(n))
		ctx.SimMs += uint64(n)
		if n > 1 {
			ctx.Count("fault.clock-jump past a time limit", 1)
		} else {
			ctx.Count("probe.simulated ms passed inside a spinning finaliser", 1)
		}
		return c.Next(), nil
	}, 1, false)
	h.Def("collect", func(t *rt.Thread, c *rt.GoCont) (rt.Cont, error) {
		k, _ := c.Arg(0).TryInt()
		col.barrier()
		ctx.Count("fault.gc-barrier", 1)
		switch k {
		case 0:
			deliverSome(1000) // everything now
		case 1:
			deliverSome(1 + sch.Choose(3))
		case 2:
			// nothing now: much later
		default:
			deliverSome(1000)
			t.CollectGarbage()
		}
		return c.Next(), nil
	}, 1, false)
	h.OnEmit = func(h *harness.Host, t *rt.Thread) {
		if sch.Chance(1, 6) {
			deliverSome(1 + sch.Choose(2))
			ctx.Count("fault.gc-deliver at a host callback", 1)
		}
	}
	scratch := ""
	if g.files {
		scratch, _ = os.MkdirTemp("/var/tmp", "vsim-gcfiles-")
		os.WriteFile(filepath.Join(scratch, "in.txt"), []byte("line1\nline2\nline3\n"), 0o644)
		h.R.GlobalEnv().Set(rt.StringValue("FILE_IN"), rt.StringValue(filepath.Join(scratch, "in.txt")))
		h.R.GlobalEnv().Set(rt.StringValue("FILE_OUT"), rt.StringValue(filepath.Join(scratch, "out.txt")))
		defer os.RemoveAll(scratch)
	}
	out := h.Run("sim", src)
	h.OnEmit = nil
	s.Drain()
	col.barrier()
	switch sch.Choose(3) {
	case 0:
		deliverSome(1000)
	case 1:
		deliverSome(1 + sch.Choose(4))
	}
	h.Note("closing")
	pan := h.Close()
	h.Note("closed")
	// X6: a file the script opened and never closed is closed with the runtime at the latest
	stillOpen := ""
	if scratch != "" {
		if ents, err := os.ReadDir("/proc/self/fd"); err == nil {
			for _, e := range ents {
				if l, err := os.Readlink("/proc/self/fd/" + e.Name()); err == nil && strings.HasPrefix(l, scratch) {
					stillOpen = l
				}
			}
		}
		ctx.Count("probe.scripts leaving files open", 1)
	}
	// whatever is still in limbo is delivered too late (after the pools were closed)
	col.barrier()
	late := col.pending()
	deliverSome(1000)
	ctx.Count("probe.finalizer delivered after Close (too late)", int64(late))
	events := log.Events()
	s.End()
	s.Release()
	ctx.Count("fault.gc-deliver (callbacks delivered)", int64(delivered))
	ctx.Trivial = delivered == 0
	ctx.Shape = core.HashString(src) ^ uint64(delivered)*7919
	ctx.LogHash = core.HashStrings(events)
	if out.Panic != nil || pan != nil {
		ctx.Fail("C18", "C18.P", "panic", "Go panic: run=%s close=%v", out.String(), pan)
		return
	}
	if out.Err != nil {
		ctx.Fail("C18", "C18.H", "script-error", "generated script failed: %s", out.String())
		return
	}
	if stillOpen != "" {
		ctx.Fail("C18", "C18.X6", "file-open-after-close", "%s (opened through the io library, never closed by the script) is still open after Runtime.Close", filepath.Base(stillOpen))
		return
	}

	// ---- oracle over the recorded history
	type info struct {
		order     int
		owner     int // context number (0 = root)
		gcN, relN int
		gcAt      int
		relAt     int
		isUD      bool
		hasGC     bool
		kept      bool
		res       bool
		rearm     bool // its finaliser arms itself again the first time it runs
		gcrN      int
		gcrFirst  int
		remark    bool // marked a second time with another finalizer
		remarked  bool // the second marking happened
		gcOld     int  // runs of the first finalizer
		gcNew     int  // runs of the second finalizer
		inCtx     string
	}
	objs := map[int64]*info{}
	// static facts from the source
	for _, l := range strings.Split(src, "\n") {
		l = strings.TrimSpace(l)
		var id int64
		var b bool
		switch {
		case strings.Contains(l, "mkr("):
			fmt.Sscanf(l[strings.Index(l, "mkr(")+4:], "%d", &id)
			objs[id] = &info{rearm: true, kept: strings.Contains(l, "-- kept")}
		case strings.Contains(l, "mklate("):
			fmt.Sscanf(l[strings.Index(l, "mklate(")+7:], "%d", &id)
			objs[id] = &info{hasGC: true, kept: strings.Contains(l, "-- kept")}
		case strings.Contains(l, "= mk(") || strings.HasPrefix(l, "do local o = mk("):
			fmt.Sscanf(l[strings.Index(l, "mk(")+3:], "%d", &id)
			objs[id] = &info{hasGC: true, kept: strings.Contains(l, "-- kept"), res: strings.Contains(l, "true)") && !strings.Contains(l, "spins"), remark: strings.Contains(l, "-- remarked")}
		case strings.Contains(l, "ud("):
			rest := l[strings.Index(l, "ud(")+3:]
			fmt.Sscanf(rest, "%d, %t", &id, &b)
			objs[id] = &info{isUD: true, hasGC: b, kept: strings.Contains(l, "-- kept")}
		}
	}
	crossIDs := map[int64]bool{}
	for _, l := range strings.Split(src, "\n") {
		if strings.Contains(l, "-- cross") {
			var id int64
			fmt.Sscanf(l[strings.Index(l, "= r")+3:], "%d", &id)
			crossIDs[id] = true
		}
	}
	var stack []int
	ctxKilled := map[int]bool{}
	ctxClosedAt := map[int]int{}
	order := 0
	closingAt := len(events)
	fail := func(rule, sig, f string, a ...interface{}) {
		ctx.Fail("C18", rule, sig, f+"\n  log: %v", append(a, events)...)
	}
	for i, e := range events {
		m := reEv.FindStringSubmatch(e)
		if m == nil {
			continue
		}
		kind, arg, arg2 := m[1], m[2], m[3]
		if m[4] != "" {
			kind, arg = m[4], m[5]
		}
		if m[6] != "" {
			kind = m[6]
		}
		id, _ := strconv.ParseInt(arg, 10, 64)
		switch kind {
		case "gcr":
			o := objs[id]
			if o == nil {
				continue
			}
			o.gcrN++
			if o.gcrN == 1 {
				o.gcrFirst = i
			}
			if arg2 != fmt.Sprint(o.gcrN) || o.gcrN > 2 {
				fail("C18.X1", "finalised-twice", "value %d, whose finaliser arms itself again once, was finalised %d times (the finaliser counts %s)", id, o.gcrN, arg2)
				return
			}
			if o.kept && i < closingAt {
				fail("C18.X4", "finalised-while-reachable", "value %d is still referenced by the program but was finalised before the runtime was closed (event #%d)", id, i)
				return
			}
		case "mark":
			order++
			if o := objs[id]; o != nil && o.rearm {
				o.order = order
				continue
			}
			if o := objs[id]; o != nil {
				if o.order != 0 {
					o.remarked = true
				}
				o.order = order
				if len(stack) > 0 {
					o.owner = stack[len(stack)-1]
				}
			}
		case "enter":
			stack = append(stack, int(id))
		case "ctx":
			// contexts nested in this one that never reported were taken along by its kill
			for len(stack) > 0 {
				n := stack[len(stack)-1]
				stack = stack[:len(stack)-1]
				ctxClosedAt[n] = i
				if n == int(id) {
					if arg2 == `"killed"` {
						ctxKilled[n] = true
					}
					break
				}
				ctxKilled[n] = true
			}
		case "gc", "gc2":
			o := objs[id]
			if o == nil {
				continue
			}
			if kind == "gc" {
				o.gcOld++
			} else {
				o.gcNew++
			}
			o.inCtx = arg2
			o.gcN++
			o.gcAt = i
			if o.gcN > 1 {
				if crossIDs[id] {
					fail("C18.X1", "finalised-twice:remarked-in-nested-context", "value %d, owned by the outer context and marked again from inside a nested limited context, was finalised when the nested context ended (while still referenced) and again later", id)
					return
				}
				fail("C18.X1", "finalised-twice", "value %d finalised twice", id)
				return
			}
			if o.kept && o.owner == 0 && i < closingAt {
				fail("C18.X4", "finalised-while-reachable", "value %d is still referenced by the program but was finalised before the runtime was closed (event #%d)", id, i)
				return
			}
		case "release":
			o := objs[id]
			if o == nil {
				continue
			}
			o.relN++
			o.relAt = i
			if o.relN > 1 {
				fail("C18.X2", "released-twice", "userdata %d released twice", id)
				return
			}
		case "closing":
			closingAt = i
		}
	}
	// a killed outer context also takes the objects of contexts nested in it along
	for id, o := range objs {
		if o.order == 0 {
			continue // never created (its statement was not reached)
		}
		killed := ctxKilled[o.owner]
		if o.rearm {
			// armed twice: finalised twice by the time the runtime is closed, unless the first run only
			// came with the close itself (what happens to a value armed while closing is left open)
			if o.gcrN == 0 || (o.gcrFirst < closingAt && o.gcrN != 2) {
				fail("C18.X1", "not-finalised-exactly-once", "value %d was armed %s but finalised %d times by the time the runtime was closed", id, map[bool]string{true: "twice (again from its first finalisation)", false: "once"}[o.gcrN > 0], o.gcrN)
				return
			}
			if o.gcrN == 2 {
				ctx.Count("probe.self re-armed finaliser ran a second time", 1)
			}
			continue
		}
		if o.hasGC {
			if killed && o.gcN > 0 && o.gcAt > ctxClosedAt[o.owner] {
				fail("C18.X1", "finalised-after-kill", "value %d of a killed context was finalised after the kill", id)
				return
			}
			if !killed && o.gcN != 1 {
				fail("C18.X1", "not-finalised-exactly-once", "value %d finalised %d times by the time the runtime was closed (owner context %d)", id, o.gcN, o.owner)
				return
			}
			if o.remarked && o.gcOld > 0 {
				fail("C18.X3", "stale-finaliser-after-remark", "value %d was given a new __gc metamethod but the old one ran", id)
				return
			}
			// X5: the finaliser of a value of a limited context runs inside that context
			if o.gcN == 1 && !o.res {
				want := "false"
				if o.owner != 0 {
					want = "true"
				}
				if o.inCtx != want {
					fail("C18.X5", "finaliser-context", "finaliser of value %d (owner context %d) ran with a limited context in force = %s, expected %s", id, o.owner, o.inCtx, want)
					return
				}
			}
		}
		if o.isUD {
			if o.relN != 1 {
				fail("C18.X2", "not-released-exactly-once", "userdata %d released %d times by the time the runtime was closed (owner context %d, killed=%v)", id, o.relN, o.owner, killed)
				return
			}
			if o.hasGC && o.gcN == 1 && o.relAt < o.gcAt {
				fail("C18.X2", "released-before-finalised", "userdata %d released (event #%d) before its finaliser ran (event #%d)", id, o.relAt, o.gcAt)
				return
			}
		}
	}
	// X3: at close, pending finalisers run in reverse order of marking
	last := 1 << 30
	for i := closingAt; i < len(events); i++ {
		m := reEv.FindStringSubmatch(events[i])
		if m == nil || (m[1] != "gc" && m[1] != "gc2") {
			continue
		}
		id, _ := strconv.ParseInt(m[2], 10, 64)
		o := objs[id]
		if o == nil || o.owner != 0 {
			continue
		}
		if o.order > last {
			fail("C18.X3", "close-order", "at close value %d (marked #%d) was finalised after a value marked earlier (#%d)", id, o.order, last)
			return
		}
		last = o.order
	}
}

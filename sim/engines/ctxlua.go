//go:build verif && !noquotas

package engines

import (
	"fmt"
	"os"
	"strconv"
	"strings"

	rt "github.com/arnodel/golua/runtime"

	"vsim/core"
	"vsim/harness"
)

// E-CTX at the Lua level (C07: "all nestings of callcontext/pcall in generated
// programs", lib/runtimelib).  A generated program nests runtime.callcontext
// calls - directly, inside pcall, inside a coroutine - with hard and soft limits
// and flags drawn from the tape; every level reports what runtime.context()
// and the returned context object say, just before the call, on entry, while
// working and just after.  The oracle is arithmetic over those reports:
//
//	L1 child.kill <= requested and <= what the parent had left when it called
//	   (and not less than that, up to the few ticks/bytes spent between report and call);
//	L2 child.stop <= child.kill for every limited resource;
//	L3 child.flags contain the parent's and the requested ones (plus cpusafe/memsafe for limits);
//	L4 the returned status is what the body did (done/error; killed when it span or
//	   killed itself; killed is also legal when a limit was reached first), results
//	   and error values come back intact;
//	L5 used < kill in every report; after the call the parent has been charged at
//	   least what the child reports as used;
//	L6 due is true when used is beyond a soft limit or a stop was requested in the
//	   context (or inherited), false when used is below every soft limit and none was;
//	L7 the iterations executed in the whole program never exceed the outermost CPU limit;
//	L8 where a memory limit (hard or soft, own or inherited) is in force, an allocation moves used.memory.

func init() {
	core.Register(&core.Engine{Name: "ctxlua", Run: runCtxLua})
}

type clNode struct {
	id       int
	killCPU  uint64
	killMem  uint64
	stopCPU  uint64
	stopMem  uint64
	flags    []string
	exit     int // 0 return, 1 error, 2 spin, 3 killcontext
	via      int // 0 direct, 1 inside pcall, 2 inside a coroutine
	stopReq  bool
	parent   int
	children []int
}

type clGen struct {
	t     *core.Tape
	b     strings.Builder
	ind   int
	nodes []*clNode
	left  int
}

func (g *clGen) ln(f string, a ...interface{}) {
	g.b.WriteString(strings.Repeat("  ", g.ind))
	fmt.Fprintf(&g.b, f, a...)
	g.b.WriteByte('\n')
}

const clPrelude = `local acc = 0
local keep = {}
local function work(n) for i = 1, n do acc = acc + 1 end end
local function fl(c) return c.flags end
local function obs(tag, id)
  local c = runtime.context()
  emit(tag, id, c.kill.cpu, c.kill.memory, c.stop.cpu, c.stop.memory, fl(c), c.used.cpu, c.used.memory, c.status)
end
`

func (g *clGen) node(parent, depth int) {
	n := &clNode{id: len(g.nodes) + 1, parent: parent}
	g.nodes = append(g.nodes, n)
	t := g.t
	if t.Chance(3, 4) {
		n.killCPU = []uint64{700, 2000, 5000, 20000, 100000}[t.Choose(5)] + uint64(t.Choose(50))
	}
	if t.Chance(2, 5) {
		n.killMem = []uint64{6000, 30000, 100000, 1000000}[t.Choose(4)] + uint64(t.Choose(50))
	}
	if t.Chance(1, 3) {
		n.stopCPU = []uint64{100, 500, 3000, 200000}[t.Choose(4)]
	}
	if t.Chance(1, 4) {
		n.stopMem = []uint64{1000, 10000, 2000000}[t.Choose(3)]
	}
	for _, f := range []string{"cpusafe", "memsafe", "timesafe", "iosafe"} {
		if t.Chance(1, 5) {
			n.flags = append(n.flags, f)
		}
	}
	n.exit = t.Weighted(5, 3, 2, 1)
	if n.exit == 2 && n.killCPU == 0 {
		n.killCPU = 2000 + uint64(t.Choose(50)) // a spinning body always has a CPU limit of its own
	}
	n.via = t.Weighted(4, 2, 2)
	id := n.id
	// the call, seen from the parent
	switch n.via {
	case 1:
		g.ln(`emit("wrap", %d, pcall(function()`, id)
		g.ind++
	case 2:
		g.ln(`emit("wrap", %d, pcall(coroutine.wrap(function()`, id)
		g.ind++
	}
	g.ln(`do`)
	g.ind++
	g.ln(`local p = runtime.context()`)
	g.ln(`emit("before", %d, p.kill.cpu, p.used.cpu, p.kill.memory, p.used.memory, fl(p), p.stop.cpu, p.stop.memory)`, id)
	var def []string
	var kill, stop []string
	if n.killCPU > 0 {
		kill = append(kill, fmt.Sprintf("cpu = %d", n.killCPU))
	}
	if n.killMem > 0 {
		kill = append(kill, fmt.Sprintf("memory = %d", n.killMem))
	}
	if n.stopCPU > 0 {
		stop = append(stop, fmt.Sprintf("cpu = %d", n.stopCPU))
	}
	if n.stopMem > 0 {
		stop = append(stop, fmt.Sprintf("memory = %d", n.stopMem))
	}
	if len(kill) > 0 {
		def = append(def, "kill = {"+strings.Join(kill, ", ")+"}")
	}
	if len(stop) > 0 {
		def = append(def, "stop = {"+strings.Join(stop, ", ")+"}")
	}
	if len(n.flags) > 0 {
		def = append(def, fmt.Sprintf("flags = %q", strings.Join(n.flags, " ")))
	}
	g.ln(`local r, v1, v2 = runtime.callcontext({%s}, function(a, b)`, strings.Join(def, ", "))
	g.ind++
	g.ln(`obs("enter", %d)`, id)
	g.ln(`emit("args", %d, a, b)`, id)
	// body
	for i, k := 0, 1+t.Choose(4); i < k; i++ {
		g.left--
		switch t.Weighted(4, 2, 3, 3, 1, 1) {
		case 5:
			// a kill or stop aimed at a context that has already ended is nothing to the caller
			g.ln(`if ENDED then emit("endedkill", %d) if %d %% 2 == 0 then ENDED:killnow() else ENDED:stopnow() end emit("survived", %d) end`, id, id, id)
		case 0:
			w := []int{10, 100, 600, 3000}[t.Choose(4)]
			// (variants decided from what the tape has already produced, without drawing from it)
			switch core.HashString(fmt.Sprintf("%d|%d|%d", id, i, g.b.Len())) % 9 {
			case 0: // the work is done under xpcall / pcall: a limit reached in there still ends the context
				g.ln(`emit("xp", %d, xpcall(function() work(%d) return "x%d" end, function(e) return e end), runtime.context().status)`, id, w, id)
			case 1:
				g.ln(`emit("xp", %d, pcall(function() work(%d) return "p%d" end), runtime.context().status)`, id, w, id)
			case 4: // one big request under xpcall / pcall: if it does not fit, the context ends, not just the call
				g.ln(`emit("xp", %d, xpcall(function() keep[#keep + 1] = ("x"):rep(%d) return "m%d" end, function(e) return e end), runtime.context().status)`, id, w*40, id)
			case 5: // the context is killed from inside xpcall
				if w == 10 {
					g.ln(`emit("xp", %d, xpcall(function() runtime.killcontext() return "k%d" end, function(e) return e end), runtime.context().status)`, id, id)
				} else {
					g.ln(`emit("xp", %d, pcall(function() keep[#keep + 1] = ("y"):rep(%d) return "n%d" end), runtime.context().status)`, id, w*40, id)
				}
			case 2: // ... in the __close handler of a coroutine that dies by an error
				g.ln(`do local co = coroutine.wrap(function() local x <close> = setmetatable({}, {__close = function() work(%d) end}) error("die%d", 0) end) emit("cod", %d, pcall(co), runtime.context().status) end`, w, id, id)
			case 3: // ... in the __close handler of a suspended coroutine that is closed
				g.ln(`do local co = coroutine.create(function() local x <close> = setmetatable({}, {__close = function() work(%d) end}) coroutine.yield() end) coroutine.resume(co) emit("coc", %d, coroutine.close(co), runtime.context().status) end`, w, id)
			default:
				g.ln(`work(%d)`, w)
			}
		case 1:
			g.ln(`do local c = runtime.context() local m0 = c.used.memory keep[#keep + 1] = ("x"):rep(%d) emit("alloc", %d, %[1]d, m0, c.used.memory, c.kill.memory, c.stop.memory) end`, []int{100, 1500, 9000}[t.Choose(3)], id)
		case 2:
			g.ln(`do local c = runtime.context() local u0, m0 = c.used.cpu, c.used.memory local d, d2 = c.due, runtime.contextdue() local u1, m1 = c.used.cpu, c.used.memory emit("due", %d, d, d2, u0, u1, m0, m1, c.stop.cpu, c.stop.memory) end`, id)
		case 3:
			if depth < 3 && g.left > 0 {
				n.children = append(n.children, len(g.nodes)+1)
				g.node(id, depth+1)
			} else {
				g.ln(`work(50)`)
			}
		case 4:
			n.stopReq = true
			g.ln(`runtime.stopcontext() emit("stopreq", %d)`, id)
		}
	}
	g.ln(`obs("leave", %d)`, id)
	switch n.exit {
	case 0:
		g.ln(`do return %d, "v%d" end`, id*7, id)
	case 1:
		g.ln(`error({id = %d})`, 400+id)
	case 2:
		g.ln(`while true do acc = acc + 1 end`)
	case 3:
		g.ln(`runtime.killcontext() emit("after-kill", %d)`, id)
	}
	g.ind--
	g.ln(`end, %d, "b%d")`, id, id)
	g.ln(`ENDED = r`)
	g.ln(`local q = runtime.context()`)
	g.ln(`emit("after", %d, r.status, r.used.cpu, r.used.memory, r.kill.cpu, r.kill.memory, q.used.cpu, q.used.memory, acc, v1, v2)`, id)
	g.ind--
	g.ln(`end`)
	switch n.via {
	case 1:
		g.ind--
		g.ln(`end))`)
	case 2:
		g.ind--
		g.ln(`end)))`)
	}
}

// clNum parses an event field: a number or nil (0, false).
func clNum(s string) (uint64, bool) {
	if s == "nil" {
		return 0, false
	}
	if f, err := strconv.ParseFloat(s, 64); err == nil && f >= 0 {
		return uint64(f), true
	}
	return 0, false
}

// clFields splits a canonical event into fields, keeping quoted strings (which may contain spaces) whole.
func clFields(e string) []string {
	var out []string
	for i := 0; i < len(e); {
		for i < len(e) && e[i] == ' ' {
			i++
		}
		if i >= len(e) {
			break
		}
		j := i
		if e[i] == '"' {
			j = i + 1
			for j < len(e) && e[j] != '"' {
				if e[j] == '\\' {
					j++
				}
				j++
			}
			j++
		} else {
			for j < len(e) && e[j] != ' ' {
				j++
			}
		}
		if j > len(e) {
			j = len(e)
		}
		out = append(out, e[i:j])
		i = j
	}
	return out
}

func minNZ(a, b uint64) uint64 {
	switch {
	case a == 0:
		return b
	case b == 0:
		return a
	case a < b:
		return a
	}
	return b
}

func runCtxLua(ctx *core.RunCtx) {
	g := &clGen{t: ctx.Gen, left: 4 + ctx.Gen.Choose(8)}
	if ctx.Tier == "thorough" {
		g.left = 4 + ctx.Gen.Choose(24)
	}
	g.b.WriteString(clPrelude)
	for i, k := 0, 1+ctx.Gen.Choose(3); i < k; i++ {
		g.node(0, 0)
	}
	g.ln(`emit("end", acc)`)
	src := g.b.String()
	rootCPU := []uint64{3000, 30000, 300000}[ctx.Gen.Choose(3)] + uint64(ctx.Gen.Choose(97))
	rootMem := []uint64{200000, 5000000, 0}[ctx.Gen.Choose(3)] + uint64(ctx.Gen.Choose(97))
	if rootMem < 100 {
		rootMem = 0 // no hard memory limit at the top: soft limits further in are then the only reason to count memory
	}
	ctx.Sample = fmt.Sprintf("-- root kill={cpu=%d, memory=%d}\n%s", rootCPU, rootMem, src)

	s := core.NewSched(ctx.Sch, 0)
	log := core.GetLog()
	defer core.PutLog(log)
	s.Begin()
	h := harness.NewHost(s, log)
	_, out := h.RunInContext(rt.RuntimeContextDef{HardLimits: rt.RuntimeResources{Cpu: rootCPU, Memory: rootMem}}, "sim", src)
	leak := s.Drain()
	events := log.Events()
	s.Reap(h.R.MainThread())
	h.Close()
	s.End()
	st := s.Stats()
	s.Release()
	if os.Getenv("VSIM_DUMP") != "" {
		fmt.Fprintf(os.Stderr, "%s\n-- outcome %s\n%s\n", ctx.Sample, out.String(), strings.Join(events, "\n"))
	}
	ctx.Trivial = false
	ctx.Shape = core.HashString(src) ^ rootCPU*31 ^ rootMem*131 ^ st.SchedHash
	ctx.LogHash = core.HashStrings(events)
	ctx.Count("contexts nested from Lua", int64(len(g.nodes)))
	fail := func(rule, sig, f string, a ...interface{}) {
		ctx.Fail("C07", "C07."+rule, sig, f, a...)
	}
	if out.Panic != nil && !strings.Contains(out.String(), "TERMINATION") {
		fail("P", "panic", "Go panic escaped: %s", out.String())
		return
	}
	if leak != "" {
		fail("V7", "leak", "goroutine leaked: %s", leak)
		return
	}
	const slackCPU, slackMem = 400, 6000 // spent between a report and the call it precedes (emit, closures, argument lists)
	type before struct {
		killCPU, usedCPU, killMem, usedMem uint64
		flags                              string
		ok                                 bool
	}
	bef := map[int]before{}
	stopSeen := map[int]bool{} // a stop was requested in this context or in an enclosing one before it was created
	open := []int{}
	maxAcc := uint64(0)
	pendingEndedKill := 0
	for _, e := range events {
		f := clFields(e)
		if len(f) < 3 || f[0] != "emit" {
			continue
		}
		if pendingEndedKill != 0 && strings.Trim(f[1], `"`) == "after" && len(f) > 3 && f[3] == `"killed"` {
			pendingEndedKill = 0 // a limit was reached just then: the context was killed, legitimately
		}
		if pendingEndedKill != 0 && strings.Trim(f[1], `"`) != "survived" {
			fail("L4", "kill-of-ended-context-abandons-caller", "context %d called killnow/stopnow on a context that had ended and did not get control back: next event %s", pendingEndedKill, e)
			return
		}
		tag := strings.Trim(f[1], `"`)
		id, _ := strconv.Atoi(f[2])
		var n *clNode
		if id >= 1 && id <= len(g.nodes) {
			n = g.nodes[id-1]
		}
		num := func(i int) (uint64, bool) {
			if i < len(f) {
				return clNum(f[i])
			}
			return 0, false
		}
		switch tag {
		case "xp", "cod", "coc":
			// L9: code that goes on after a protected call / the end of a coroutine runs in a live context (a
			// limit reached in there would have ended the context, not the protected call only)
			ctx.Count("protected work / dying-coroutine handlers survived inside a limited context", 1)
			if st := strings.Trim(f[len(f)-1], `"`); st != "live" {
				fail("L9", "running-in-ended-context:"+tag, "context %d goes on running after %s although it reports status %s: %s", id, tag, st, e)
				return
			}
			// ... and what the protected call reports is what its body did (it never fails by itself): a limit
			// reached in there is not an error the program gets to see
			want := map[string]string{"xp": "true", "coc": "true", "cod": "false"}[tag]
			if len(f) < 5 || f[3] != want { // (in the middle of an argument list the call gives its first result only)
				fail("L9", "termination-seen-as-error:"+tag, "context %d: the protected call reports something its body did not do (a limit reached inside it was handed to the program as an error?): %s", id, e)
				return
			}
		case "before":
			kc, _ := num(3)
			uc, _ := num(4)
			km, _ := num(5)
			um, _ := num(6)
			bef[id] = before{kc, uc, km, um, strings.Trim(f[7], `"`), true}
		case "enter", "leave":
			if n == nil {
				continue
			}
			ctx.Count("context reports checked", 1)
			kc, kcOK := num(3)
			km, kmOK := num(4)
			sc, scOK := num(5)
			sm, smOK := num(6)
			flags := strings.Trim(f[7], `"`)
			uc, _ := num(8)
			um, _ := num(9)
			status := strings.Trim(f[10], `"`)
			if tag == "enter" {
				open = append(open, id)
				inherited := false
				for _, o := range open[:len(open)-1] {
					if stopSeen[o] {
						inherited = true
					}
				}
				if inherited {
					stopSeen[id] = true
				}
				b := bef[id]
				if !b.ok {
					continue
				}
				// L1 cpu
				leftHi := uint64(0) // what the parent had left at the report (an upper bound of what it had at the call)
				if b.killCPU > 0 {
					leftHi = b.killCPU - b.usedCPU
				}
				want := minNZ(n.killCPU, leftHi)
				switch {
				case want == 0 && kcOK:
					fail("L1", "limit-from-nowhere:cpu", "context %d reports kill.cpu=%d but neither it nor its parent has a CPU limit: %s", id, kc, e)
					return
				case want > 0 && !kcOK:
					fail("L1", "limit-lost:cpu", "context %d has no kill.cpu although %d was requested / the parent had %d left: %s", id, n.killCPU, leftHi, e)
					return
				case want > 0 && kc > want:
					fail("L1", "child-budget-exceeds:cpu", "context %d got kill.cpu=%d, more than requested (%d) or than the parent had left (%d): %s", id, kc, n.killCPU, leftHi, e)
					return
				case want > 0 && kc+slackCPU < want:
					fail("L1", "child-budget-short:cpu", "context %d got kill.cpu=%d, expected about %d (requested %d, parent had %d left): %s", id, kc, want, n.killCPU, leftHi, e)
					return
				}
				leftHi = 0
				if b.killMem > 0 {
					leftHi = b.killMem - b.usedMem
				}
				want = minNZ(n.killMem, leftHi)
				switch {
				case want == 0 && kmOK:
					fail("L1", "limit-from-nowhere:memory", "context %d reports kill.memory=%d but neither it nor its parent has a memory limit: %s", id, km, e)
					return
				case want > 0 && !kmOK:
					fail("L1", "limit-lost:memory", "context %d has no kill.memory although %d was requested / the parent had %d left: %s", id, n.killMem, leftHi, e)
					return
				case want > 0 && km > want:
					fail("L1", "child-budget-exceeds:memory", "context %d got kill.memory=%d, more than requested (%d) or than the parent had left (%d): %s", id, km, n.killMem, leftHi, e)
					return
				case want > 0 && km+slackMem < want:
					fail("L1", "child-budget-short:memory", "context %d got kill.memory=%d, expected about %d (requested %d, parent had %d left): %s", id, km, want, n.killMem, leftHi, e)
					return
				}
				// L3 flags
				need := append(strings.Fields(b.flags), n.flags...)
				if n.killCPU > 0 {
					need = append(need, "cpusafe")
				}
				if n.killMem > 0 {
					need = append(need, "memsafe")
				}
				for _, fl := range need {
					if !strings.Contains(" "+flags+" ", " "+fl+" ") {
						fail("L3", "flag-dropped", "context %d requires %q, which lacks %q (parent: %q, requested: %v): %s", id, flags, fl, b.flags, n.flags, e)
						return
					}
				}
				if status != "live" {
					fail("L4", "status-on-entry", "context %d reports status %q while running: %s", id, status, e)
					return
				}
				if n.stopCPU > 0 && scOK && sc > n.stopCPU {
					fail("L2", "soft-limit-above-request:cpu", "context %d: stop.cpu=%d above the %d requested: %s", id, sc, n.stopCPU, e)
					return
				}
				if n.stopCPU > 0 && !scOK {
					fail("L2", "soft-limit-lost:cpu", "context %d: stop.cpu missing although %d was requested: %s", id, n.stopCPU, e)
					return
				}
			}
			// L2
			if scOK && kcOK && sc > kc {
				fail("L2", "soft-above-hard:cpu", "context %d: stop.cpu=%d > kill.cpu=%d: %s", id, sc, kc, e)
				return
			}
			if smOK && kmOK && sm > km {
				fail("L2", "soft-above-hard:memory", "context %d: stop.memory=%d > kill.memory=%d: %s", id, sm, km, e)
				return
			}
			// L5
			if kcOK && uc >= kc {
				fail("L5", "used-reaches-kill:cpu", "context %d: used.cpu=%d >= kill.cpu=%d: %s", id, uc, kc, e)
				return
			}
			if kmOK && um >= km {
				fail("L5", "used-reaches-kill:memory", "context %d: used.memory=%d >= kill.memory=%d: %s", id, um, km, e)
				return
			}
		case "alloc":
			// L8: where a memory limit (hard or soft, own or inherited) is in force, allocation is accounted
			if len(f) < 8 {
				continue
			}
			nb, _ := num(3)
			m0, _ := num(4)
			m1, _ := num(5)
			_, hasKill := num(6)
			_, hasStop := num(7)
			if hasKill || hasStop {
				ctx.Count("allocations checked against the accounting", 1)
				if m1 < m0+nb {
					fail("L8", "allocation-not-accounted", "context %d has a memory limit in force but building a %d-byte string moved used.memory from %d to %d only: %s", id, nb, m0, m1, e)
					return
				}
			}
		case "endedkill":
			pendingEndedKill = id
			continue
		case "survived":
			pendingEndedKill = 0
		case "stopreq":
			stopSeen[id] = true
		case "due":
			if n == nil || len(f) < 11 {
				continue
			}
			d, d2 := f[3] == "true", f[4] == "true"
			u0, _ := num(5)
			u1, _ := num(6)
			m0, _ := num(7)
			m1, _ := num(8)
			sc, scOK := num(9)
			sm, smOK := num(10)
			ctx.Count("due reports checked", 1)
			// every reading is itself a call that holds a continuation and a result object for a moment:
			// within this distance of a soft limit either answer is right
			const nearCPU, nearMem = 150, 400
			mustTrue := stopSeen[id] || (scOK && u0 > sc+nearCPU) || (smOK && m0 > sm+nearMem)
			mustFalse := !stopSeen[id] && (!scOK || u1+nearCPU < sc) && (!smOK || m1+nearMem < sm)
			if d != d2 && (mustTrue || mustFalse) {
				fail("L6", "due-disagrees", "context %d: ctx.due=%v but runtime.contextdue()=%v: %s", id, d, d2, e)
				return
			}
			if mustTrue && !d {
				fail("L6", "due-false", "context %d: due is false although a stop was requested (%v) or a soft limit is exceeded (used cpu %d / stop %d, memory %d / stop %d): %s", id, stopSeen[id], u0, sc, m0, sm, e)
				return
			}
			if mustFalse && d {
				fail("L6", "due-true", "context %d: due is true although no stop was requested and used is below every soft limit (cpu %d / stop %d, memory %d / stop %d): %s", id, u1, sc, m1, sm, e)
				return
			}
		case "after":
			if n == nil || len(f) < 13 {
				continue
			}
			for len(open) > 0 && open[len(open)-1] != id {
				open = open[:len(open)-1] // children that never reported back (unwound by a limit of this one)
			}
			if len(open) > 0 {
				open = open[:len(open)-1]
			}
			status := strings.Trim(f[3], `"`)
			ruc, _ := num(4)
			rum, _ := num(5)
			rkc, rkcOK := num(6)
			rkm, rkmOK := num(7)
			quc, qucOK := num(8)
			qum, qumOK := num(9)
			acc, _ := num(10)
			if acc > maxAcc {
				maxAcc = acc
			}
			ctx.Count("status."+status, 1)
			want := []string{"done", "error", "killed", "killed"}[n.exit]
			if status != want && status != "killed" {
				fail("L4", "status-untrue", "context %d ended by %s but reports %q: %s", id, []string{"return", "error", "spinning", "killcontext"}[n.exit], status, e)
				return
			}
			switch status {
			case "done":
				if f[11] != fmt.Sprint(id*7) || f[12] != fmt.Sprintf(`"v%d"`, id) {
					fail("L4", "results-altered", "context %d returned (%d, \"v%d\") but the caller got (%s, %s): %s", id, id*7, id, f[11], f[12], e)
					return
				}
			case "error":
				if f[11] != fmt.Sprintf("T<%d>", 400+id) {
					fail("L4", "error-altered", "context %d raised the table {id=%d} but the caller got %s: %s", id, 400+id, f[11], e)
					return
				}
			}
			if rkcOK && ruc >= rkc {
				fail("L5", "used-reaches-kill:cpu", "context %d: used.cpu=%d >= kill.cpu=%d after the call: %s", id, ruc, rkc, e)
				return
			}
			if rkmOK && rum >= rkm {
				fail("L5", "used-reaches-kill:memory", "context %d: used.memory=%d >= kill.memory=%d after the call: %s", id, rum, rkm, e)
				return
			}
			b := bef[id]
			if b.ok && b.killCPU > 0 && qucOK && quc < b.usedCPU+ruc {
				fail("L5", "child-not-charged:cpu", "context %d used %d but its parent went from %d to %d only: %s", id, ruc, b.usedCPU, quc, e)
				return
			}
			if b.ok && b.killMem > 0 && qumOK && qum < b.usedMem+rum {
				fail("L5", "child-not-charged:memory", "context %d used %d bytes but its parent went from %d to %d only: %s", id, rum, b.usedMem, qum, e)
				return
			}
		case "args":
			if n != nil && (f[3] != fmt.Sprint(id) || f[4] != fmt.Sprintf(`"b%d"`, id)) {
				fail("L4", "arguments-altered", "context %d was called with (%d, \"b%d\") but received (%s, %s)", id, id, id, f[3], f[4])
				return
			}
		case "after-kill":
			fail("L4", "kill-ignored", "code after runtime.killcontext() ran in context %d", id)
			return
		case "end":
			if a, ok := clNum(f[2]); ok && a > maxAcc {
				maxAcc = a
			}
		}
	}
	// L7: the iterations executed (one tick each at least) fit in the outermost limit
	if maxAcc >= rootCPU {
		fail("L7", "more-work-than-the-outermost-limit", "%d loop iterations were executed under an outermost CPU limit of %d", maxAcc, rootCPU)
	}
}

//go:build verif

package engines

import (
	"reflect"
	"runtime"
	"sync"
	"time"
)

type limboEntry struct {
	obj interface{}
	fin interface{}
}

type collector struct {
	mu    sync.Mutex
	limbo []limboEntry
	live  map[uintptr]bool
}

var theCollector *collector

func (c *collector) setFinalizer(obj interface{}, fin interface{}) {
	if fin == nil {
		runtime.SetFinalizer(obj, nil)
		return
	}
	// the wrapper must have the type func(T) for obj of type T
	ot := reflect.TypeOf(obj)
	wrapper := reflect.MakeFunc(reflect.FuncOf([]reflect.Type{ot}, nil, false), func(args []reflect.Value) []reflect.Value {
		c.mu.Lock()
		c.limbo = append(c.limbo, limboEntry{obj: args[0].Interface(), fin: fin})
		c.mu.Unlock()
		return nil
	})
	runtime.SetFinalizer(obj, nil)
	runtime.SetFinalizer(obj, wrapper.Interface())
}

// barrier runs the Go collector until no more objects arrive in limbo.
func (c *collector) barrier() {
	for round := 0; round < 4; round++ {
		c.mu.Lock()
		before := len(c.limbo)
		c.mu.Unlock()
		runtime.GC()
		// wait for the finalizer goroutine to drain its queue: a sentinel finalizer
		done := make(chan struct{})
		s := new([16]byte)
		runtime.SetFinalizer(s, func(*[16]byte) { close(done) })
		s = nil
		runtime.GC()
		select {
		case <-done:
		case <-time.After(2 * time.Second):
		}
		c.mu.Lock()
		after := len(c.limbo)
		c.mu.Unlock()
		if after == before && round > 0 {
			break
		}
	}
}

// deliver calls the pool's finalizer callback for the k-th limbo entry.
func (c *collector) deliver(k int) {
	c.mu.Lock()
	if k >= len(c.limbo) {
		c.mu.Unlock()
		return
	}
	e := c.limbo[k]
	c.limbo = append(c.limbo[:k], c.limbo[k+1:]...)
	c.mu.Unlock()
	reflect.ValueOf(e.fin).Call([]reflect.Value{reflect.ValueOf(e.obj)})
}

func (c *collector) pending() int {
	c.mu.Lock()
	defer c.mu.Unlock()
	return len(c.limbo)
}

//go:build verif

package engines

import "vsim/core"

var realAll = []string{"golua scanner/parser/compiler/VM/runtime/stdlib/luagc pools (unmodified code from /repo working tree, built with tag verif)"}

// Specs returns the check specification of a property for a tier.
func Spec(prop, tier string) *core.CheckSpec {
	q := tier != "thorough"
	n := func(quick, thorough uint64) uint64 {
		if q {
			return quick
		}
		return thorough
	}
	ms := func(quick, thorough int64) int64 {
		if q {
			return quick
		}
		return thorough
	}
	switch prop {
	case "C09":
		return &core.CheckSpec{
			Property: "C09", Level: "exploration",
			Rule: "seeded coroutine scripts x seeded hand-off schedules; a run is non-trivial if the scheduler took at least one non-default decision (another enabled task than the running one was chosen); distinct = hash(script text, decision vector)",
			Batches: []core.Batch{
				{Engine: "corofree", Mode: "std", Runs: n(40000, 2000000), Millis: ms(20000, 600000)},
				{Engine: "corofree", Mode: "std", Variant: "race", Runs: n(6000, 400000), Millis: ms(20000, 600000), HangS: 120},
				{Engine: "corofree", Mode: "free", Variant: "race", Runs: n(3000, 300000), Millis: ms(15000, 400000), HangS: 60, Chunk: 200, Sound: true, Workers: 6, Env: []string{"GOMAXPROCS=4"}, Note: "no scheduler: real goroutine scheduling under the race detector (cross-check of the hook model; not replayable, reports races, crashes, hangs and repeatable differences)"},
				{Engine: "model", Mode: "coro", Runs: n(30000, 3000000), Millis: ms(20000, 600000)},
				{Engine: "model", Mode: "coro", Variant: "race", Runs: n(4000, 400000), Millis: ms(15000, 400000), HangS: 120},
			},
			Real:   realAll,
			Stub:   []string{"goroutine scheduling decisions (controlled baton-passing scheduler driven by the tape)", "host callbacks emit/probe"},
			Assume: []string{"scheduler hooks in runtime/thread.go cover every blocking operation of coroutine hand-off (cross-checked by the watchdog: an unhooked block shows as a hang)"},
		}
	case "C05":
		return &core.CheckSpec{
			Property: "C05", Level: "fault_enumeration",
			Rule: "fault = CPU limit L (the context is destroyed at the first metering point reaching L); per generated program: unlimited reference run (twice, determinism), then limited runs at L in {1,2,u-1,u,u+1,2u}, just after tape-chosen events of the reference log, and random; thorough tier sweeps every L in [1,u+1] for small programs; adversarial templates (never-ending programs that try to intercept or outrun the kill) under tape-chosen limits. non-trivial = at least one limited run was killed; distinct = hash(program text, number of killed runs, schedule) / hash(template instance, limits)",
			Batches: []core.Batch{
				{Engine: "quota", Mode: "cpu", Runs: n(20000, 2000000), Millis: ms(25000, 500000)},
				{Engine: "quotaadv", Mode: "cpu", Runs: n(4000, 400000), Millis: ms(20000, 300000), HangS: 60, Chunk: 300},
				{Engine: "quota", Mode: "cpu-sweep", Runs: n(150, 200000), Millis: ms(12000, 400000), HangS: 120, Chunk: 50},
			},
			Real:   realAll,
			Stub:   []string{"goroutine scheduling decisions (controlled scheduler)", "host callbacks emit/probe", "the instant of termination is observed through the verifOnTerminate hook"},
			Assume: []string{"K6 (no unmetered work) is checked against the real clock with a 10 s bound per run: CPU work cannot be virtualised"},
		}
	case "C06":
		return &core.CheckSpec{
			Property: "C06", Level: "fault_enumeration",
			Rule: "fault = memory limit M (failing allocation at the first charge that would reach M); per generated program: unlimited reference run, limited runs at M around stamps of the reference log and random; oracle: accounted memory < M at every event, killed runs are prefixes, completed runs identical, monotone in M; adversarial amplification templates with size parameters up to 2^63 under small M with a Go-heap bound. non-trivial = at least one limited run was killed",
			Batches: []core.Batch{
				{Engine: "quota", Mode: "mem", Runs: n(20000, 2000000), Millis: ms(25000, 500000)},
				{Engine: "quotaadv", Mode: "mem", Runs: n(4000, 400000), Millis: ms(25000, 400000), HangS: 60, Chunk: 300},
				{Engine: "crash", Mode: "lib-amp", Runs: n(6000, 600000), Millis: ms(15000, 300000), HangS: 60, Chunk: 500, Note: "every Go function reachable from the global table x argument tuples with sizes far beyond the limit (integers up to 2^40, 100 kB strings, 2000-item tables): what is returned fits under the limit, the process heap does not grow beyond 64 M + 128 MiB, the call returns within 10 s"},
			},
			Real:   realAll,
			Stub:   []string{"goroutine scheduling decisions (controlled scheduler)", "host callbacks emit/probe"},
			Assume: []string{"heap bound M3 uses runtime.MemStats.TotalAlloc of the worker process: cumulative allocation <= 16*M + 96 MiB + 600 bytes per CPU tick allowed, and growth of the process heap <= 64*M + 128 MiB per run (a suspended coroutine is accounted 2 kB but holds a goroutine stack and a thread object: the constant covers that)"},
		}
	case "C10":
		return &core.CheckSpec{
			Property: "C10", Level: "exploration",
			Rule: "seeded SimLua programs nesting blocks, loops, functions, pcall/xpcall and coroutines with <close> declarations at arbitrary positions; exits = falling off, break, goto out/continue, return (incl. tail position), runtime errors, error(v), lua-error injected at the k-th probe invocation (fault plan from the tape), coroutine.close at a suspension point, handlers that raise or call functions; oracle = event log and outcome equal to the independent reference interpreter (close-stack model: exactly once, reverse order, in-flight error as 2nd argument, before the receiver runs). non-trivial = a probe fault fired, an error was raised or a non-default scheduling decision was taken; distinct = hash(program, fault plan, schedule)",
			Batches: []core.Batch{
				{Engine: "model", Mode: "close", Runs: n(60000, 6000000), Millis: ms(40000, 900000)},
			},
			Real:   realAll,
			Stub:   []string{"goroutine scheduling decisions (controlled scheduler)", "host callbacks emit/probe (probe raises the planned error values)"},
			Assume: []string{"the reference interpreter (sim/engines/simmodel.go) is a faithful reading of the Lua 5.4 manual for the SimLua subset; message texts generated by golua are not compared, only chunk:line prefixes"},
		}
	case "C11":
		return &core.CheckSpec{
			Property: "C11", Level: "exploration",
			Rule: "seeded SimLua programs with error sites of every kind (error(v) with values of every type, level 0/1, runtime errors, errors of library functions, lua-error injected at the k-th probe invocation) under every nesting of pcall/xpcall/coroutine.resume/wrap and to-be-closed scopes; oracle = event log and outcome equal to the reference interpreter (catch-site model: nearest boundary, value identity, chunk:line prefix, handler once at the point of the error and before unwound __close handlers); the program keeps running after every caught error and the rest of its log must match too (post-fault consistency). non-trivial as for C10",
			Batches: []core.Batch{
				{Engine: "model", Mode: "err", Runs: n(60000, 6000000), Millis: ms(40000, 900000)},
			},
			Real:   realAll,
			Stub:   []string{"goroutine scheduling decisions (controlled scheduler)", "host callbacks emit/probe"},
			Assume: []string{"reference interpreter as for C10; positions of errors raised by host functions in tail-call position are not specified and not generated"},
		}
	case "C03":
		return &core.CheckSpec{
			Property: "C03", Level: "exploration",
			Rule: "seeded operation histories (set/clear/reset/get/next/len, index through __index, bursts of integer keys moving keys between array and hash part, clear-all-then-reinsert) over 1-2 tables and a pool of ~80 keys (small/large ints, integer-valued and fractional floats, -0.0, +-inf, short/long strings and separately built equal copies, booleans, tables, Go functions, equal-by-value closures, a coroutine); two traversal cursors per table whose steps the tape interleaves with the mutator (restricted to assigning/clearing existing fields while a traversal is open); quota kills landing inside assignments. Oracle after every operation: every pool key reads the reference map's value, #t is a border, completed traversals visited each key present throughout exactly once and none absent throughout, raw equality agrees with key identity for every pair. non-trivial = history of at least 5 operations or a kill landed; distinct = hash of the history",
			Batches: []core.Batch{
				{Engine: "table", Mode: "", Runs: n(60000, 6000000), Millis: ms(40000, 900000), Chunk: 5000},
			},
			Real:   []string{"runtime.Table / mixedTable (array + coalesced hash), Runtime.SetTable, Index/SetIndex, RawEqual, Value.Hash/Equals, unmodified"},
			Stub:   []string{"the order in which mutator and traversers take turns (tape)", "limits of the contexts pushed around single assignments"},
			Assume: []string{"hash-seed dependent slot layout cannot be seeded; it varies with the worker process only"},
		}
	case "C14":
		bs := []core.Batch{{Engine: "conf", Mode: "conf", Runs: n(6000, 400000), Millis: ms(30000, 500000)}, {Engine: "conf", Mode: "nort", Runs: n(3000, 200000), Millis: ms(20000, 300000)}}
		for _, v := range []string{"noregpool", "nocontpool", "nopools", "safepool"} {
			bs = append(bs, core.Batch{Engine: "conf", Mode: "conf", Variant: v, DiffBase: "std", Runs: n(6000, 400000), Millis: ms(30000, 500000), Workers: 4})
		}
		bs = append(bs, core.Batch{Engine: "conf", Mode: "nort", Variant: "noquotas", DiffBase: "std", Runs: n(3000, 200000), Millis: ms(20000, 300000)})
		bs = append(bs, core.Batch{Engine: "conf", Mode: "snap", Runs: n(400, 20000), Millis: ms(5000, 60000), Workers: 2},
			core.Batch{Engine: "conf", Mode: "snap", Variant: "safepool", DiffBase: "std", Runs: n(400, 20000), Millis: ms(5000, 60000), Workers: 2,
				Note: "open finding: values whose metatable changed after marking / whose finaliser compares its argument with the held value, finalised at Close by the two finaliser pools"})
		return &core.CheckSpec{
			Property: "C14", Level: "exploration",
			Rule:    "the same tape (G-rich program + pool-stress templates: deep recursion, error unwinding through many frames, abandoned coroutines, closures outliving frames, re-entrant calls from Go; CPU-limit kill; hand-off schedule; WithRegSetMaxAge knob) is executed by the worker built with each tag set {noregpool, nocontpool, noregpool+nocontpool, safepool, noquotas (programs that do not use the runtime library)} and by the default build; the canonical event logs, results and error values must be identical run by run. non-trivial = a pool-stress template, a kill or a non-default scheduling decision was present",
			Batches: bs,
			Real:    realAll,
			Stub:    []string{"goroutine scheduling decisions (controlled scheduler)", "host callbacks"},
			Assume:  []string{"only runs executed by both builds within the time budget are compared (counted in the evidence)"},
		}
	case "C18":
		return &core.CheckSpec{
			Property: "C18", Level: "exploration",
			Rule: "seeded scripts creating tables with __gc and userdata with a Go release hook (with or without __gc), kept or dropped, resurrecting themselves, inside nested limited contexts left normally / by error / by kill and unlimited contexts sharing the parent's pool; the simulated collector lets the real Go GC prove unreachability but delivers each pool finaliser callback at a tape-chosen instant (at collectgarbage, at any host callback, much later, just before Close, after Close); oracle over the recorded history per value id: finalised at most once and exactly once by the time the owner closes (never after a kill), released exactly once and after its finaliser, reverse marking order at close, never finalised while referenced. non-trivial = at least one finaliser callback was delivered by the simulated collector",
			Batches: []core.Batch{
				{Engine: "gc", Mode: "", Runs: n(8000, 300000), Millis: ms(50000, 900000), Chunk: 300, HangS: 60, Retries: 5},
				{Engine: "gc", Mode: "", Variant: "safepool", Runs: n(4000, 150000), Millis: ms(40000, 600000), Chunk: 300, HangS: 60, Workers: 8, Retries: 5},
			},
			Real:   realAll,
			Stub:   []string{"the instant and order at which Go finalizers of pool values are delivered (simulated collector behind the luagc setFinalizer seam); reachability itself is decided by the real Go GC"},
			Assume: []string{"a value the Go GC never proves unreachable simply stays un-delivered until close (the oracle does not depend on limbo membership)"},
		}
	case "C08":
		return &core.CheckSpec{
			Property: "C08", Level: "exploration",
			Rule: "every Go function reachable from the global environment, package.loaded, metatables of standard values and values returned by library functions (iterators, wrappers, context objects) x all 15 non-empty subsets of required flags x 2 sampled argument tuples (paths and shell commands aimed at a private sentinel directory holding a secret) x a sampled call spelling (direct, pcall, __index metamethod, coroutine.wrap). Oracle: undeclared flag => 'missing flags' error, context live, sentinel untouched; iosafe declared and required => sentinel byte-identical and the secret never returned. One run covers one function; the function x flag-subset grid is exhaustive once runs >= number of functions x a small factor (counted)",
			Batches: []core.Batch{
				{Engine: "flags", Mode: "", Runs: n(12000, 400000), Millis: ms(40000, 600000), Chunk: 400, HangS: 60},
				{Engine: "flags", Mode: "plant", Runs: n(3000, 300000), Millis: ms(10000, 200000), Chunk: 500, HangS: 60, Note: "code handed only to a context requiring iosafe plants something the runtime itself runs later (finalisers of dropped / kept / several values, line / call / return / count hooks, directly, inside pcall, inside a coroutine) and leaves; the host then allocates, collects and closes the runtime: the sentinel must stay as it was"},
				{Engine: "flags", Mode: "trace", Runs: n(1500, 100000), Millis: ms(25000, 300000), Chunk: 200, HangS: 120, Workers: 6, Env: []string{"VSIM_STRACE=1"}, Note: "system-call seam: the workers run under strace (file, network and process calls) and read their own trace; between two markers around every call that must be refused or that runs with iosafe required, no system call may name the sentinel directory, open a socket or start a process - covers reads that return nothing to Lua"},
			},
			Real:   realAll,
			Stub:   []string{"the operating system is real; effects are observed on a private sentinel directory (snapshot before/after every call)"},
			Assume: []string{"read-only access whose result is not returned, and network access, are not observable by this oracle (the strace seam of the design was not built)"},
		}
	case "C04":
		return &core.CheckSpec{
			Property: "C04", Level: "exploration",
			Rule: "three workloads under CPU/memory limits that can land anywhere in scanner, parser, compiler, VM and libraries: (src) generated valid programs with 1-4 byte flips/truncations/insertions/deletions/splices applied to the stored source before compilation; (lib) every Go function reachable from the global table x 0-4 arguments from an edge pool (nil, booleans, extreme ints/floats, NaN, hostile formats/patterns, NUL and invalid UTF-8, tables with erroring or self-recursive metamethods, dead/suspended/fresh coroutines, standard files, a context object); (ramp) 20 depth/size ramp templates with N up to 10^6 whose value is known by construction. Oracle at the process boundary: no Go panic escapes, the worker process survives (journal + solo re-run), the case returns (watchdog), ramps return the right value or an ordinary error/kill. Every case is non-trivial; distinct = hash of the case",
			Batches: []core.Batch{
				{Engine: "crash", Mode: "src", Runs: n(20000, 3000000), Millis: ms(25000, 500000)},
				{Engine: "crash", Mode: "lib", Runs: n(30000, 3000000), Millis: ms(25000, 500000)},
				{Engine: "crash", Mode: "ramp", Runs: n(600, 60000), Millis: ms(30000, 600000), Workers: 6, HangS: 180, Chunk: 100},
				{Engine: "crash", Mode: "nolimit", Runs: n(3000, 300000), Millis: ms(6000, 100000), HangS: 60, Note: "library calls with sizes no allocator can serve (2^48+1 ... 2^63-1, negative) in a context without any limit, directly, inside a coroutine under pcall, as a coroutine body: an error comes back, not a panic of the Go allocator"},
				{Engine: "crash", Mode: "pkg", Runs: n(4000, 400000), Millis: ms(6000, 100000), Note: "package.loaded / preload / searchers / path / config overwritten with values of every kind, then require, searchpath, the searchers, dofile and loadfile: a value or an error, never a panic"},
				{Engine: "crash", Mode: "bin", Runs: n(15000, 1500000), Millis: ms(12000, 300000), Note: "string.dump of a generated program with corrupted bytes (and 8-byte length fields set to huge values) given to load() under limits: loading ends in a function, an error or a kill - no panic, no crash, no allocation sized by a made-up length (running corrupted byte code is outside the property)"},
				{Engine: "model", Mode: "close-crash", Runs: n(12000, 1500000), Millis: ms(12000, 300000), Note: "SimLua programs (coroutines, to-be-closed values, handlers that yield or raise, coroutine.close at any point) under the controlled scheduler; only escaping panics, process crashes, dead-locks and hangs count here"},
				{Engine: "model", Mode: "coro-crash", Runs: n(12000, 1500000), Millis: ms(12000, 300000), Note: "as above, coroutine-heavy shapes"},
			},
			Real:   realAll,
			Stub:   []string{"limits (kill points) and corrupted bytes come from the tape; the operating system is real (working directory moved to a scratch directory, destructive functions excluded from the lib workload)"},
			Assume: []string{"corrupted binary chunks are only loaded, never run: the manual allows byte code that was tampered with to misbehave when executed, and golua has no byte-code verifier", "os.exit, os.execute, io.popen, os.remove/rename, dofile/loadfile/require and other file-opening functions are excluded from the lib workload"},
		}
	case "C20":
		return &core.CheckSpec{
			Property: "C20", Level: "exploration",
			Rule: "2-4 runtimes per run, each a simulator task creating its runtime, loading the libraries, running a generated program that mutates globals, library functions, the string metatable, metatables of basic types, the random seed and package tables, and closing; the tape interleaves the tasks at every host callback; oracle: each runtime's event log and outcome equal the log of the same program run alone; race build: no data race report. non-trivial = at least one non-default scheduling decision; distinct = hash(programs, decision vector)",
			Batches: []core.Batch{
				{Engine: "iso", Mode: "", Runs: n(8000, 800000), Millis: ms(30000, 600000), Chunk: 500},
				{Engine: "iso", Mode: "", Variant: "race", Runs: n(1500, 200000), Millis: ms(25000, 600000), HangS: 120, Chunk: 300},
				{Engine: "iso", Mode: "fresh", Variant: "race", Runs: n(240, 30000), Millis: ms(20000, 300000), HangS: 120, Chunk: 3, Workers: 8, Note: "a new worker process every three runs, every runtime touching what the libraries set up on first use: initialisation shared between runtimes happens once per process and has to fall inside an observed run"},
				{Engine: "iso", Mode: "par", Variant: "race", Runs: n(800, 100000), Millis: ms(20000, 400000), HangS: 120, Chunk: 100, Sound: true, Env: []string{"GOMAXPROCS=4"}, Workers: 4, Note: "runtimes on truly concurrent goroutines, no scheduler; only race reports and repeatable differences count"},
			},
			Real:   realAll,
			Stub:   []string{"which runtime's goroutine proceeds at each host callback / coroutine hand-off (controlled scheduler)"},
			Assume: []string{"the controlled batches serialise execution: the race detector works from happens-before, which the un-instrumented parking of the scheduler leaves untouched; the parallel batch is not replayable and reports only race-detector findings and differences that reproduce"},
		}
	case "C07":
		return &core.CheckSpec{
			Property: "C07", Level: "exploration",
			Rule: "seeded histories of push/pop/require/release/soft-stop/hard-stop/clock-advance on the context stack through the Go API, limits and amounts from {0,1,2,small,b-1,b,b+1 around the remaining budget,2^32,2^63,2^64-1}, simulated clock; every operation checked against an exact-arithmetic reference model (conservation ledger). non-trivial = some context was killed or at least two contexts were nested; distinct = hash of the operation history",
			Batches: []core.Batch{
				{Engine: "ctx", Mode: "", Runs: n(300000, 30000000), Millis: ms(30000, 900000), Chunk: 20000},
				{Engine: "ctxlua", Mode: "", Runs: n(8000, 800000), Millis: ms(20000, 400000), Chunk: 2000, HangS: 60, Note: "the same laws at the Lua level (lib/runtimelib): generated nestings of runtime.callcontext - direct, inside pcall, inside a coroutine - with hard/soft limits and flags from the tape; every level reports runtime.context() before the call, on entry, while working and after; oracle L1-L7 is arithmetic over those reports (child budget = min(requested, what the parent had left), soft <= hard, flags inherited, status/results/errors truthful, used < kill, parent charged, due, total work within the outermost limit)"},
			},
			Real:   []string{"runtime.Runtime context manager (PushContext/PopContext/Require*/Release*/SetStopLevel/Due), unmodified", "ctxlua batch: the whole of golua (compiler, VM, lib/runtimelib, pcall, coroutines) from the /repo working tree"},
			Stub:   []string{"wall clock (simulated through the verifClock hook)", "the host driver recovers termination panics as CallContext does", "ctxlua batch: goroutine hand-offs under the controlled scheduler, host callback emit"},
			Assume: []string{"the driver only issues operations a host may legally issue (no requirement in a terminated context, releases within what the frame holds)", "used of a resource for which no limit (hard or soft, own or inherited) is in force is not specified and not compared", "ctxlua compares reports taken a few instructions apart: 400 ticks / 6000 bytes of slack between the parent's report and the child's budget, either answer of due within 150 ticks / 400 bytes of a soft limit"},
		}
	}
	return nil
}

//go:build verif

package engines

import "vsim/core"

var realAll = []string{"golua scanner/parser/compiler/VM/runtime/stdlib/luagc pools (unmodified code from /repo working tree, built with tag verif)"}

// Specs returns the check specification of a property for a tier.
func Spec(prop, tier string) *core.CheckSpec {
	q := tier != "thorough"
	n := func(quick, thorough uint64) uint64 {
		if q {
			return quick
		}
		return thorough
	}
	ms := func(quick, thorough int64) int64 {
		if q {
			return quick
		}
		return thorough
	}
	switch prop {
	case "C09":
		return &core.CheckSpec{
			Property: "C09", Level: "exploration",
			Rule: "seeded coroutine scripts x seeded hand-off schedules; a run is non-trivial if the scheduler took at least one non-default decision (another enabled task than the running one was chosen); distinct = hash(script text, decision vector)",
			Batches: []core.Batch{
				{Engine: "corofree", Mode: "std", Runs: n(40000, 2000000), Millis: ms(25000, 600000)},
				{Engine: "corofree", Mode: "std", Variant: "race", Runs: n(6000, 400000), Millis: ms(25000, 600000), HangS: 120},
			},
			Real:   realAll,
			Stub:   []string{"goroutine scheduling decisions (controlled baton-passing scheduler driven by the tape)", "host callbacks emit/probe"},
			Assume: []string{"scheduler hooks in runtime/thread.go cover every blocking operation of coroutine hand-off (cross-checked by the watchdog: an unhooked block shows as a hang)"},
		}
	}
	return nil
}

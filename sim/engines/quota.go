//go:build verif && !noquotas

package engines

import (
	"fmt"
	"reflect"
	"sort"
	"strings"

	rt "github.com/arnodel/golua/runtime"

	"vsim/core"
	"vsim/harness"
)

// E-QUOTA (DESIGN §4 C05/C06).  A CPU (memory) limit is golua's own crash
// injection: with limit L the context is destroyed at the first metering point
// whose cumulative count reaches L.  Sweeping L places the crash at every
// instant of an execution.  Every program is compared with its own unlimited
// run (same tape, same schedule), never with recorded numbers.

func init() {
	core.Register(&core.Engine{Name: "quota", Run: runQuota})
}

const limInf = uint64(1) << 62

type quotaRun struct {
	events   []string
	stamps   []uint64 // total cpu (mode cpu) or memory (mode mem) in use at each event, summed over the context chain
	status   rt.RuntimeContextStatus
	used     rt.RuntimeResources
	outcome  string
	termAt   int // log length when the host context was terminated, -1 if never
	depthEnd int // context depth of the runtime after the host call returned (must be 0)
	memBad   string
	leak     string
	nonDeflt int
	steps    int
	tasks    int
	schedH   uint64
}

// nilCtx: RuntimeContext.Parent() returns a typed nil pointer for the root.
func nilCtx(c rt.RuntimeContext) bool {
	return c == nil || reflect.ValueOf(c).IsNil()
}

func chainUsed(c rt.RuntimeContext) (cpu, mem uint64, depth int) {
	for !nilCtx(c) {
		u := c.UsedResources()
		cpu += u.Cpu
		mem += u.Memory
		depth++
		c = c.Parent()
	}
	return cpu, mem, depth - 1
}

func ctxDepth(c rt.RuntimeContext) int {
	_, _, d := chainUsed(c)
	return d
}

// execLimited runs src inside a host context with the given hard limits, under
// the controlled scheduler drawing from sch.
func execLimited(src string, lim rt.RuntimeResources, sch *core.Tape, memMode bool, prep func(h *harness.Host)) *quotaRun {
	res := &quotaRun{termAt: -1}
	s := core.NewSched(sch, 0) // the CPU limit bounds the run
	log := core.GetLog()
	defer core.PutLog(log)
	var stamps []uint64
	s.Begin()
	h := harness.NewHost(s, log)
	if prep != nil {
		prep(h)
	}
	h.OnEmit = func(h *harness.Host, t *rt.Thread) {
		cpu, mem, _ := chainUsed(t.RuntimeContext())
		if memMode {
			stamps = append(stamps, mem)
			if lim.Memory > 0 && mem >= lim.Memory && res.memBad == "" {
				res.memBad = fmt.Sprintf("accounted memory %d >= limit %d at event #%d", mem, lim.Memory, log.Len()-1)
			}
			if mem >= 1<<62 && res.memBad == "" {
				res.memBad = fmt.Sprintf("accounted memory underflow: %d at event #%d", mem, log.Len()-1)
			}
		} else {
			stamps = append(stamps, cpu)
		}
	}
	rt.VerifTerminateHook = func(c rt.RuntimeContext) {
		if ctxDepth(c) == 1 && res.termAt < 0 {
			res.termAt = log.Len()
		}
	}
	ctx, out := h.RunInContext(rt.RuntimeContextDef{HardLimits: lim}, "sim", src)
	rt.VerifTerminateHook = nil
	res.depthEnd = ctxDepth(h.R.RuntimeContext())
	res.leak = s.Drain()
	res.events = log.Events()
	res.stamps = stamps
	res.outcome = out.String()
	if ctx != nil {
		res.status = ctx.Status()
		res.used = ctx.UsedResources()
	} else {
		res.outcome += " NOCTX"
	}
	h.OnEmit = nil
	s.Reap(h.R.MainThread())
	if pan := h.Close(); pan != nil {
		res.outcome += fmt.Sprintf(" CLOSEPANIC(%v)", pan)
	}
	if l2 := s.End(); res.leak == "" {
		res.leak = l2
	}
	res.nonDeflt, res.steps, res.tasks, res.schedH = s.NonDefault, s.Steps, s.Tasks(), s.SchedHash
	s.Release()
	return res
}

// execLimitedRoot gives the limits to the runtime itself (rt.WithRuntimeContext, as the golua command
// does for -cpulimit/-memlimit): there is no CallContext around the program, the kill surfaces at the
// host as a termination, and the host then closes the runtime - in the killed context.
func execLimitedRoot(src string, lim rt.RuntimeResources) *quotaRun {
	res := &quotaRun{termAt: -1}
	s := core.NewSched(core.ReplayTape(nil), 0)
	log := core.GetLog()
	defer core.PutLog(log)
	s.Begin()
	// loading the libraries runs under the limits too: they are added to what the program gets
	const setupCPU, setupMem = 3000000, 3000000
	h := harness.NewHost(s, log, rt.WithRuntimeContext(rt.RuntimeContextDef{HardLimits: rt.RuntimeResources{Cpu: lim.Cpu + setupCPU, Memory: lim.Memory + setupMem}}))
	killed := false
	rt.VerifTerminateHook = func(c rt.RuntimeContext) {
		// the context given to rt.New sits on top of the runtime's own unlimited one: depth 1
		if ctxDepth(c) == 1 {
			killed = true
			if res.termAt < 0 {
				res.termAt = log.Len()
			}
		}
	}
	out := h.Run("sim", src)
	res.outcome = out.String()
	res.status = h.R.RuntimeContext().Status()
	res.used = h.R.RuntimeContext().UsedResources()
	res.leak = s.Drain()
	s.Reap(h.R.MainThread())
	if pan := h.Close(); pan != nil {
		if _, ok := pan.(rt.ContextTerminationError); !ok {
			res.outcome += fmt.Sprintf(" CLOSEPANIC(%v)", pan)
		}
	}
	rt.VerifTerminateHook = nil
	if killed {
		res.status = rt.StatusKilled // possibly only while being closed (a finaliser reached the limit then)
	}
	res.events = log.Events() // including whatever ran while the runtime was being closed
	if l2 := s.End(); res.leak == "" {
		res.leak = l2
	}
	s.Release()
	return res
}

func isPrefix(a, b []string) bool {
	if len(a) > len(b) {
		return false
	}
	for i := range a {
		if a[i] != b[i] {
			return false
		}
	}
	return true
}

func runQuota(ctx *core.RunCtx) {
	memMode := strings.HasPrefix(ctx.Mode, "mem")
	prop := "C05"
	if memMode {
		prop = "C06"
	}
	sweep := strings.HasSuffix(ctx.Mode, "-sweep")
	g := ctx.Gen
	opts := richOpts{NoGC: true, AllowYield: true}
	opts.NoCtx = g.Choose(10) < 7
	opts.NoYieldInProtected = g.Choose(8) != 7 // 7/8 of the runs avoid the open finding CTXLEAK
	if sweep {
		opts.MaxStmts = 5
		opts.NoCtx = true
	}
	src, feat := genRich(g, opts)
	ctx.Sample = src
	fl := featList(feat)
	// the schedule is the same for every execution of this run: replay the same prefix
	schVals := make([]uint32, 64)
	for i := range schVals {
		schVals[i] = uint32(ctx.Sch.Choose(1 << 16))
	}
	if g.Choose(4) != 0 {
		schVals = nil // natural schedule in 3/4 of the runs
	}
	mkSch := func() *core.Tape { return core.ReplayTape(schVals) }
	mkLim := func(v uint64) rt.RuntimeResources {
		if memMode {
			return rt.RuntimeResources{Memory: v}
		}
		return rt.RuntimeResources{Cpu: v}
	}
	pick := func(r rt.RuntimeResources) uint64 {
		if memMode {
			return r.Memory
		}
		return r.Cpu
	}

	ref := execLimited(src, mkLim(limInf), mkSch(), memMode, nil)
	ctx.Ticks += ref.used.Cpu
	if strings.Contains(ref.outcome, "PANIC") {
		ctx.Fail(prop, prop+".P", "panic-unlimited", "Go panic escaped from the unlimited run: %s {%s}", ref.outcome, fl)
		return
	}
	if ref.depthEnd != 0 {
		ctx.Count("known.context-left-on-stack", 1)
		ctx.Fail(prop, prop+".CTXLEAK", "context-left-on-stack", "after the host's CallContext returned, %d context(s) are still on the runtime's context stack (a coroutine yielded inside pcall/xpcall/callcontext); the context returned to the host is not its own: status=%v used.cpu=%d {%s}", ref.depthEnd, ref.status, ref.used.Cpu, fl)
		return
	}
	if ref.status == rt.StatusKilled {
		ctx.Fail(prop, prop+".K0", "killed-unlimited", "run under limit 2^62 was killed: %s", ref.outcome)
		return
	}
	if ref.memBad != "" {
		ctx.Fail(prop, prop+".M1", "used-reaches-limit", "%s (unlimited run) {%s}", ref.memBad, fl)
		return
	}
	// K5 determinism of accounting
	ref2 := execLimited(src, mkLim(limInf), mkSch(), memMode, nil)
	if ref2.used.Cpu != ref.used.Cpu || ref2.outcome != ref.outcome || firstDiff(ref.events, ref2.events) >= 0 {
		ctx.Fail(prop, prop+".K5", "nondeterministic", "two unlimited runs of the same program differ: cpu %d vs %d, outcome %s vs %s, first log diff at %d {%s}", ref.used.Cpu, ref2.used.Cpu, ref.outcome, ref2.outcome, firstDiff(ref.events, ref2.events), fl)
		return
	}
	if !memMode {
		for i := range ref.stamps {
			if i < len(ref2.stamps) && ref.stamps[i] != ref2.stamps[i] {
				ctx.Fail(prop, prop+".K5", "nondeterministic-stamps", "cpu stamp of event #%d differs between two unlimited runs: %d vs %d {%s}", i, ref.stamps[i], ref2.stamps[i], fl)
				return
			}
		}
	}
	u := pick(ref.used)
	if memMode {
		// for memory the interesting range is up to the highest stamp seen
		for _, s := range ref.stamps {
			if s > u {
				u = s
			}
		}
		u += 4096
	}
	if u == 0 {
		u = 1
	}

	// limits
	var limits []uint64
	if sweep && u <= 4000 {
		for L := uint64(1); L <= u+1; L++ {
			limits = append(limits, L)
		}
	} else {
		n := 6
		if ctx.Tier == "thorough" {
			n = 12
		}
		fixed := []uint64{1, 2, u - 1, u, u + 1, 2 * u}
		for i := 0; i < n; i++ {
			switch g.Weighted(3, 4, 3) {
			case 0:
				limits = append(limits, fixed[g.Choose(len(fixed))])
			case 1:
				if len(ref.stamps) > 0 {
					k := g.Choose(len(ref.stamps))
					limits = append(limits, ref.stamps[k]+uint64(g.Choose(4)))
				} else {
					limits = append(limits, 1+uint64(g.Choose(int(u))))
				}
			default:
				limits = append(limits, 1+uint64(g.Choose(int(u+1))))
			}
		}
		// ... and far from the program's own usage: up to the width of the counters, and around the
		// multiples of 2^64/10 and 2^64/4 where "what is left" times a small factor no longer fits
		far := []uint64{1 << 40, 1 << 60, 1844674407370955161, 1844674407370955190, 3689348814741910323, 3689348814741910353, 4611686018427387904, 4611686018427387910, 5534023222112865485, 7378697629483820647, 1 << 63, 1<<63 + 5, ^uint64(0) - 1, ^uint64(0)}
		fl := far[g.Choose(len(far))] + uint64(g.Choose(3))
		if g.Chance(1, 2) && len(ref.stamps) > 0 && fl < 1<<63 {
			// such that what is left when some event is reached sits right at the boundary
			fl += ref.stamps[g.Choose(len(ref.stamps))] + uint64(g.Choose(400))
		}
		limits = append(limits, fl)
		ctx.Count("fault.limit far from the usage", 1)
	}
	type oc struct {
		L      uint64
		killed bool
	}
	var outcomes []oc
	killedN, doneN := 0, 0
	for _, L := range limits {
		if L == 0 {
			L = 1
		}
		r := execLimited(src, mkLim(L), mkSch(), memMode, nil)
		ctx.Ticks += r.used.Cpu
		killed := r.status == rt.StatusKilled
		outcomes = append(outcomes, oc{L, killed})
		if killed {
			killedN++
		} else {
			doneN++
		}
		where := fmt.Sprintf("limit=%d unlimited-usage=%d {%s}", L, u, fl)
		if r.depthEnd != 0 {
			ctx.Fail(prop, prop+".CTXLEAK", "context-left-on-stack", "after the host's CallContext returned, %d context(s) are still on the runtime's context stack; %s", r.depthEnd, where)
			return
		}
		if strings.Contains(r.outcome, "PANIC") {
			ctx.Fail(prop, prop+".P", "panic", "Go panic escaped: %s; %s", r.outcome, where)
			return
		}
		if r.leak != "" {
			ctx.Fail(prop, prop+".V7", "leak", "goroutine leaked after a limited run: %s; %s", r.leak, where)
			return
		}
		if r.memBad != "" {
			ctx.Fail(prop, prop+".M1", "used-reaches-limit", "%s; %s", r.memBad, where)
			return
		}
		if pick(r.used) >= L {
			ctx.Fail(prop, prop+".K2", "used-reaches-limit", "context reports used=%d with limit %d (status %v); %s", pick(r.used), L, r.status, where)
			return
		}
		if killed {
			if !strings.Contains(r.outcome, "TERMINATED") {
				ctx.Fail(prop, prop+".K4", "killed-but-not-terminated", "status killed but the host call returned %s; %s", r.outcome, where)
				return
			}
			if r.termAt >= 0 && len(r.events) > r.termAt {
				ctx.Fail(prop, prop+".K3", "event-after-termination", "event %q emitted after the context was terminated (termination mark at event #%d); %s", r.events[r.termAt], r.termAt, where)
				return
			}
			if opts.NoCtx {
				if !isPrefix(r.events, ref.events) {
					d := firstDiff(r.events, ref.events[:min(len(ref.events), len(r.events))])
					ctx.Fail(prop, prop+".K3", "not-a-prefix", "log of the killed run is not a prefix of the unlimited log: event #%d is %q, unlimited has %q; %s", d, at(r.events, d), at(ref.events, d), where)
					return
				}
				if !memMode {
					want := 0
					for _, s := range ref.stamps {
						if s < L {
							want++
						}
					}
					// stamps are not monotone across nested contexts only if accounting is broken
					if len(r.events) != want {
						ctx.Fail(prop, prop+".K3", "wrong-kill-point", "killed run emitted %d events, but %d events of the unlimited run happen before cpu %d; %s", len(r.events), want, L, where)
						return
					}
				}
			}
		} else {
			if strings.Contains(r.outcome, "TERMINATED") {
				ctx.Fail(prop, prop+".K4", "terminated-but-not-killed", "host call returned %s but status is %v; %s", r.outcome, r.status, where)
				return
			}
			if opts.NoCtx {
				if r.outcome != ref.outcome || firstDiff(r.events, ref.events) >= 0 {
					d := firstDiff(r.events, ref.events)
					ctx.Fail(prop, prop+".K2", "limited-run-differs", "run that was not killed differs from the unlimited run: outcome %s vs %s, first log diff #%d %q vs %q; %s", r.outcome, ref.outcome, d, at(r.events, d), at(ref.events, d), where)
					return
				}
				if !memMode && r.used.Cpu != ref.used.Cpu {
					ctx.Fail(prop, prop+".K2", "usage-differs", "cpu used %d differs from the unlimited run's %d although not killed; %s", r.used.Cpu, ref.used.Cpu, where)
					return
				}
			}
		}
		if !memMode && opts.NoCtx {
			// K1: killed <=> L <= u
			if killed != (L <= u) {
				ctx.Fail(prop, prop+".K1", "kill-iff-limit-le-usage", "status=%v outcome=%s; %s", r.status, r.outcome, where)
				return
			}
		}
	}
	if memMode && opts.NoCtx {
		// M2 monotone in M
		sort.Slice(outcomes, func(i, j int) bool { return outcomes[i].L < outcomes[j].L })
		seenDone := uint64(0)
		for _, o := range outcomes {
			if !o.killed && seenDone == 0 {
				seenDone = o.L
			}
			if o.killed && seenDone != 0 {
				ctx.Fail(prop, prop+".M2", "not-monotone", "killed with memory limit %d but completed with the smaller limit %d {%s}", o.L, seenDone, fl)
				return
			}
		}
	}
	ctx.Count("fault.kill-"+map[bool]string{false: "cpu", true: "mem"}[memMode]+" (runs killed)", int64(killedN))
	ctx.Count("limited runs completed", int64(doneN))
	ctx.Count("fault.handoff-order(non-default decisions)", int64(ref.nonDeflt))
	for f := range feat {
		ctx.Count("feature."+f, 1)
	}
	if !opts.NoCtx {
		ctx.Count("programs with nested callcontext (weaker oracle)", 1)
	}
	ctx.Trivial = killedN == 0
	ctx.Shape = core.HashString(src) ^ uint64(killedN)*1315423911 ^ ref.schedH
	ctx.LogHash = core.HashStrings(ref.events)
}

//go:build verif

package engines

import (
	"fmt"
	"math"
	"strings"

	rt "github.com/arnodel/golua/runtime"

	"vsim/core"
	"vsim/harness"
)

// E-TABLE (DESIGN §4 C03): operation histories on tables through the Go API
// (Table.Get/Set/Reset/Next/Len, Runtime.SetTable, Index/SetIndex with
// metamethods) against a reference map keyed by the manual's normal form;
// traversals are separate logical tasks whose steps the tape interleaves with
// the mutator's; quota kills land inside operations and the history carries on
// in the parent context.

func init() {
	core.Register(&core.Engine{Name: "table", Run: runTable})
}

type poolKey struct {
	v     rt.Value
	norm  string // model key
	desc  string
	isObj bool
}

func normNumber(v rt.Value) (string, bool) {
	switch v.Type() {
	case rt.IntType:
		return fmt.Sprintf("i%d", v.AsInt()), true
	case rt.FloatType:
		f := v.AsFloat()
		if f == math.Trunc(f) && f >= -9223372036854775808.0 && f < 9223372036854775808.0 {
			return fmt.Sprintf("i%d", int64(f)), true
		}
		return fmt.Sprintf("f%x", math.Float64bits(f)), true
	}
	return "", false
}

func buildPool(h *harness.Host, g *core.Tape) ([]poolKey, string) {
	var p []poolKey
	add := func(v rt.Value, norm, desc string) { p = append(p, poolKey{v: v, norm: norm, desc: desc}) }
	for i := int64(-2); i <= 40; i++ {
		n, _ := normNumber(rt.IntValue(i))
		add(rt.IntValue(i), n, fmt.Sprint(i))
	}
	for _, i := range []int64{63, 64, 65, 100, 128, 1 << 31, 1<<53 - 1, 1 << 53, 1<<53 + 1, math.MinInt64, math.MaxInt64} {
		n, _ := normNumber(rt.IntValue(i))
		add(rt.IntValue(i), n, fmt.Sprint(i))
	}
	for _, f := range []float64{1.0, 2.0, 3.0, 17.0, 9007199254740992.0, math.Copysign(0, -1), 0.5, 1.5, -1.5, 1e300, math.Inf(1), math.Inf(-1), -9223372036854775808.0, 9223372036854775808.0} {
		n, _ := normNumber(rt.FloatValue(f))
		add(rt.FloatValue(f), n, fmt.Sprintf("%gf", f))
	}
	for _, s := range []string{"", "a", "ab", "abcdefg", "abcdefgh", "abcdefghi", strings.Repeat("long", 10), "1", "1.0",
		// same length, differing only in the last or the first byte, around the short-string sizes
		"abcdef1", "abcdef2", "abcdefg1", "abcdefg2", "1bcdefgh", "abcdefgh1", "abcdefgh2", "0123456789abcde1", "0123456789abcde2", "a\x00b", "a\x00c", "\xff",
		// a string and the same string followed by NUL bytes; the empty string and NULs only
		"a\x00", "a\x00\x00", "\x00", "\x00\x00", "abcdefg\x00"} {
		add(rt.StringValue(s), "s"+s, fmt.Sprintf("%q", s))
		// an equal string built separately at run time
		b := []byte(s)
		add(rt.StringValue(string(append([]byte{}, b...))), "s"+s, fmt.Sprintf("%q'", s))
	}
	add(rt.BoolValue(true), "btrue", "true")
	add(rt.BoolValue(false), "bfalse", "false")
	// objects: identity decided by golua's own raw equality (the property demands that
	// table-key equality agrees with it, not a particular answer for closures)
	var objs []rt.Value
	for i := 0; i < 3; i++ {
		objs = append(objs, rt.TableValue(rt.NewTable()))
	}
	objs = append(objs, rt.FunctionValue(rt.NewGoFunction(func(*rt.Thread, *rt.GoCont) (rt.Cont, error) { return nil, nil }, "gf1", 0, false)))
	objs = append(objs, rt.FunctionValue(rt.NewGoFunction(func(*rt.Thread, *rt.GoCont) (rt.Cont, error) { return nil, nil }, "gf2", 0, false)))
	out := h.Run("pool", `local up = {}
local function mk() return function() return up end end
local function mk2(x) return function() return x end end
return mk(), mk(), mk2(1), mk2(1), function() end, coroutine.create(mk())`)
	note := ""
	if out.Err != nil || out.Panic != nil {
		note = "pool chunk failed: " + out.String()
	}
	objs = append(objs, out.Values...)
	base := len(p)
	for i, o := range objs {
		norm := fmt.Sprintf("o%d", i)
		for j := 0; j < i; j++ {
			if eq, _ := rt.RawEqual(objs[j], o); eq {
				norm = p[base+j].norm
				break
			}
		}
		add(o, norm, fmt.Sprintf("%s#%d", o.TypeName(), i))
		p[len(p)-1].isObj = true
	}
	return p, note
}

type traversal struct {
	open    bool
	cur     rt.Value
	visited map[string]int
	present map[string]bool // keys present throughout (so far)
	absent  map[string]bool // keys absent throughout (so far)
}

func runTable(ctx *core.RunCtx) {
	g := ctx.Gen
	log := core.GetLog()
	defer core.PutLog(log)
	h := harness.NewHost(nil, log)
	defer h.Close()
	r := h.R
	pool, note := buildPool(h, g)
	if note != "" {
		ctx.Fail("C03", "C03.H", "harness", "%s", note)
		return
	}
	// The hash seed is one more source of nondeterminism behind a seam: the Go runtime picks it at
	// random per process, here the tape picks it per run (hook VerifHashFunc), so that which keys
	// collide inside a table is part of the replayable case.  Equal keys hash alike by construction
	// (integral floats as their integer, objects by the first pool object they are raw-equal to).
	hseed := uint64(g.Choose(1<<30))*0x9e3779b97f4a7c15 + 1
	mix := func(x uint64) uintptr {
		x ^= hseed
		x = (x ^ (x >> 30)) * 0xbf58476d1ce4e5b9
		x = (x ^ (x >> 27)) * 0x94d049bb133111eb
		return uintptr(x ^ (x >> 31))
	}
	if g.Chance(1, 6) {
		// a weak hash: many keys share a slot, long chains
		strong := mix
		mix = func(x uint64) uintptr { return strong(x) & 3 }
		ctx.Count("fault.weak hash (long collision chains)", 1)
	}
	rt.VerifHashFunc = func(v rt.Value) (uintptr, bool) {
		if n, ok := v.TryInt(); ok {
			return mix(uint64(n)), true
		}
		if f, ok := v.TryFloat(); ok {
			if f == math.Trunc(f) && f >= -9.2e18 && f <= 9.2e18 {
				return mix(uint64(int64(f))), true
			}
			return mix(math.Float64bits(f) ^ 0x5555), true
		}
		if str, ok := v.TryString(); ok {
			var hh uint64 = 14695981039346656037
			for i := 0; i < len(str); i++ {
				hh = (hh ^ uint64(str[i])) * 1099511628211
			}
			return mix(hh ^ uint64(len(str))<<56), true
		}
		if b, ok := v.TryBool(); ok {
			if b {
				return mix(0xb001), true
			}
			return mix(0xb000), true
		}
		for i := range pool {
			if pool[i].isObj {
				if eq, _ := rt.RawEqual(pool[i].v, v); eq {
					return mix(0x0b1ec7 + uint64(i)), true
				}
			}
		}
		return 0, false
	}
	defer func() { rt.VerifHashFunc = nil }()
	var hist []string
	fail := func(rule, sig, format string, args ...interface{}) {
		tail := hist
		if len(tail) > 60 {
			tail = tail[len(tail)-60:]
		}
		ctx.Sample = strings.Join(tail, "\n")
		ctx.Fail("C03", rule, sig, format+"\n  last operations:\n    "+strings.Join(tail, "\n    "), args...)
	}
	// R5: normal form agrees with golua's raw equality for every pair
	for i := range pool {
		for j := range pool {
			eq, _ := rt.RawEqual(pool[i].v, pool[j].v)
			if eq != (pool[i].norm == pool[j].norm) {
				fail("C03.R5", "rawequal-vs-normal-form", "rawequal(%s, %s) = %v but the manual's key normalisation says %v", pool[i].desc, pool[j].desc, eq, pool[i].norm == pool[j].norm)
				return
			}
		}
	}
	ntab := 1 + g.Choose(2)
	tabs := make([]*rt.Table, ntab)
	models := make([]map[string]string, ntab)
	travs := make([][]*traversal, ntab)
	for i := range tabs {
		tabs[i] = rt.NewTable()
		models[i] = map[string]string{}
		travs[i] = []*traversal{{}, {}}
	}
	counter := int64(1000)
	newVal := func() rt.Value {
		counter++
		switch g.Weighted(10, 2, 1, 1) {
		case 1:
			return rt.BoolValue(false)
		case 2:
			return rt.BoolValue(true)
		case 3:
			return rt.StringValue(fmt.Sprintf("v%d", counter))
		}
		return rt.IntValue(counter)
	}
	nops := 10 + g.Choose(60)
	if ctx.Tier == "thorough" {
		nops = 20 + g.Choose(220)
	}
	// growth pattern biases key choice
	pattern := g.Choose(5)
	seq := 0
	pickKey := func() int {
		switch pattern {
		case 1: // ascending ints
			if g.Chance(3, 4) {
				seq++
				return 3 + (seq % 38) // pool index of small ints 1..
			}
		case 2: // descending
			if g.Chance(3, 4) {
				seq++
				return 42 - (seq % 40)
			}
		case 3: // objects and strings
			if g.Chance(3, 4) {
				return 68 + g.Choose(len(pool)-68)
			}
		}
		return g.Choose(len(pool))
	}
	kills := 0
	anyOpen := func(ti int) bool { return travs[ti][0].open || travs[ti][1].open }
	noteChange := func(ti int, norm string, nowPresent bool) {
		for _, tr := range travs[ti] {
			if tr.open {
				if nowPresent {
					delete(tr.absent, norm)
				} else {
					delete(tr.present, norm)
				}
			}
		}
	}
	verify := func(ti int, op string) bool {
		t := tabs[ti]
		for _, k := range pool {
			got := t.Get(k.v)
			want, ok := models[ti][k.norm]
			if !ok {
				if !got.IsNil() {
					fail("C03.R1", "get-absent-key", "after %s: t%d[%s] = %s but no equal key holds a value", op, ti, k.desc, harness.Canon(got))
					return false
				}
				continue
			}
			if harness.Canon(got) != want {
				fail("C03.R1", "get-wrong-value", "after %s: t%d[%s] = %s, expected %s (most recent assignment to an equal key)", op, ti, k.desc, harness.Canon(got), want)
				return false
			}
		}
		// R3 structural invariants of the private representation
		if err := t.VerifCheckInvariants(); err != nil {
			fail("C03.R3", "invariant", "after %s: t%d: %v", op, ti, err)
			return false
		}
		// R2 border
		n := t.Len()
		if n < 0 {
			fail("C03.R2", "border", "after %s: #t%d = %d", op, ti, n)
			return false
		}
		if n > 0 && t.Get(rt.IntValue(n)).IsNil() {
			fail("C03.R2", "border", "after %s: #t%d = %d but t[%d] is nil", op, ti, n, n)
			return false
		}
		if n < math.MaxInt64 && !t.Get(rt.IntValue(n+1)).IsNil() {
			fail("C03.R2", "border", "after %s: #t%d = %d but t[%d] is not nil", op, ti, n, n+1)
			return false
		}
		return true
	}
	for i := 0; i < nops && !ctx.Failed(); i++ {
		ti := g.Choose(ntab)
		t := tabs[ti]
		m := models[ti]
		w := []int{8, 4, 3, 3, 2, 3, 2, 2, 3, 2}
		switch g.Weighted(w...) {
		case 9: // keys no table can hold (nil, NaN), through every door of the library: refused, table unchanged
			if anyOpen(ti) {
				continue
			}
			bad := rt.NilValue
			bdesc := "nil"
			if g.Chance(2, 3) {
				bad, bdesc = rt.FloatValue(math.NaN()), "NaN"
			}
			glob := func(n string) rt.Value { return h.R.GlobalEnv().Get(rt.StringValue(n)) }
			var out harness.Outcome
			var op string
			wantErr := true
			switch g.Choose(5) {
			case 0:
				op = fmt.Sprintf("rawset(t%d, %s, 1)", ti, bdesc)
				out = h.Call(glob("rawset"), rt.TableValue(t), bad, rt.IntValue(1))
			case 1:
				op = fmt.Sprintf("t%d[%s] = 1", ti, bdesc)
				out.Err = rt.SetIndex(r.MainThread(), rt.TableValue(t), bad, rt.IntValue(1))
			case 2:
				op = fmt.Sprintf("rawget(t%d, %s)", ti, bdesc)
				out = h.Call(glob("rawget"), rt.TableValue(t), bad)
				wantErr = false
				if out.Err == nil && (len(out.Values) != 1 || !out.Values[0].IsNil()) {
					fail("C03.R1", "get-absent-key", "%s returned %s", op, out.String())
					return
				}
			case 3:
				if bdesc == "nil" {
					continue // next(t, nil) starts a traversal
				}
				op = fmt.Sprintf("next(t%d, %s)", ti, bdesc)
				out = h.Call(glob("next"), rt.TableValue(t), bad)
			default:
				op = fmt.Sprintf("table.insert-style t%d[%s] through Runtime.SetTableCheck", ti, bdesc)
				out.Err = r.SetTableCheck(t, bad, rt.IntValue(1))
			}
			hist = append(hist, op)
			if out.Panic != nil {
				fail("C03.R1", "invalid-key-panic", "%s panicked: %v", op, out.Panic)
				return
			}
			if wantErr && out.Err == nil {
				fail("C03.R1", "invalid-key-accepted", "%s succeeded: a table cannot hold this key", op)
				return
			}
			// nothing was added: as many entries as the model has
			n := 0
			var k rt.Value
			for {
				nk, _, ok := t.Next(k)
				if !ok || nk.IsNil() {
					break
				}
				k = nk
				n++
				if n > len(m)+5 {
					break
				}
			}
			if n != len(m) {
				fail("C03.R1", "invalid-key-stored", "after %s: t%d holds %d entries, the model %d", op, ti, n, len(m))
				return
			}
			verify(ti, op)
		case 0, 1: // set (case 1: under a quota that may kill mid-operation)
			ki := pickKey()
			k := pool[ki]
			_, present := m[k.norm]
			clear := g.Chance(1, 4)
			if anyOpen(ti) && !present {
				// during a traversal only existing fields may be assigned or cleared
				continue
			}
			var v rt.Value
			if clear {
				v = rt.NilValue
			} else {
				v = newVal()
			}
			limited := g.Chance(1, 4)
			op := fmt.Sprintf("t%d[%s] = %s", ti, k.desc, harness.Canon(v))
			if limited {
				var def rt.RuntimeContextDef
				if g.Chance(1, 2) {
					def.HardLimits.Cpu = uint64(1 + g.Choose(3))
				} else {
					def.HardLimits.Memory = uint64(1 + g.Choose(40))
				}
				op += fmt.Sprintf("  (inside a context with kill=%v)", def.HardLimits)
				hist = append(hist, op)
				killed := false
				func() {
					r.PushContext(def)
					defer func() {
						if x := recover(); x != nil {
							if _, ok := x.(rt.ContextTerminationError); !ok {
								panic(x)
							}
							killed = true
						}
						r.PopContext()
					}()
					r.SetTable(t, k.v, v)
				}()
				if killed {
					kills++
					ctx.Count("fault.kill landing inside a table assignment", 1)
					// the in-flight assignment either applied or not
					got := t.Get(k.v)
					if !clear && !got.IsNil() && harness.Canon(got) == harness.Canon(v) && m[k.norm] != harness.Canon(v) {
						m[k.norm] = harness.Canon(v)
						noteChange(ti, k.norm, true)
					} else if got.IsNil() && clear {
						delete(m, k.norm)
						noteChange(ti, k.norm, false)
					}
					verify(ti, op)
					continue
				}
			} else {
				hist = append(hist, op)
				switch g.Choose(3) {
				case 0:
					t.Set(k.v, v)
				case 1:
					r.SetTable(t, k.v, v)
				default:
					if err := rt.SetIndex(r.MainThread(), rt.TableValue(t), k.v, v); err != nil {
						fail("C03.R1", "setindex-error", "SetIndex failed: %v", err)
						return
					}
				}
			}
			if clear {
				delete(m, k.norm)
				noteChange(ti, k.norm, false)
			} else {
				m[k.norm] = harness.Canon(v)
				noteChange(ti, k.norm, true)
			}
			verify(ti, op)
		case 2: // reset
			k := pool[pickKey()]
			_, present := m[k.norm]
			rv := newVal()
			op := fmt.Sprintf("Reset t%d[%s] = %s", ti, k.desc, harness.Canon(rv))
			hist = append(hist, op)
			was := t.Reset(k.v, rv)
			if was != present {
				fail("C03.R1", "reset-wasset", "%s returned %v but the key is %s", op, was, map[bool]string{true: "present", false: "absent"}[present])
				return
			}
			if present {
				m[k.norm] = harness.Canon(rv)
			}
			verify(ti, op)
		case 3: // start / step a traversal
			ci := g.Choose(2)
			tr := travs[ti][ci]
			if !tr.open {
				tr.open = true
				tr.cur = rt.NilValue
				tr.visited = map[string]int{}
				tr.present = map[string]bool{}
				tr.absent = map[string]bool{}
				for _, k := range pool {
					if _, ok := m[k.norm]; ok {
						tr.present[k.norm] = true
					} else {
						tr.absent[k.norm] = true
					}
				}
				hist = append(hist, fmt.Sprintf("traversal %c of t%d starts", 'A'+ci, ti))
				ctx.Count("traversals started", 1)
			}
			steps := 1 + g.Choose(4)
			for s := 0; s < steps && tr.open; s++ {
				nk, nv, ok := t.Next(tr.cur)
				if !ok {
					fail("C03.R4", "next-invalid-key", "next(t%d, %s) failed although only existing fields were assigned or cleared during the traversal", ti, harness.Canon(tr.cur))
					return
				}
				if nk.IsNil() {
					tr.open = false
					hist = append(hist, fmt.Sprintf("traversal %c of t%d ends after %d keys", 'A'+ci, ti, len(tr.visited)))
					ctx.Count("traversals completed", 1)
					for norm := range tr.present {
						if tr.visited[norm] != 1 {
							fail("C03.R4", "traversal-missed-or-repeated", "key %s was present throughout the traversal of t%d but was visited %d times", norm, ti, tr.visited[norm])
							return
						}
					}
					break
				}
				norm := ""
				for _, k := range pool {
					if eq, _ := rt.RawEqual(k.v, nk); eq {
						norm = k.norm
						break
					}
				}
				if norm == "" {
					fail("C03.R4", "traversal-unknown-key", "traversal of t%d produced key %s which was never assigned", ti, harness.Canon(nk))
					return
				}
				tr.visited[norm]++
				if tr.visited[norm] > 1 {
					fail("C03.R4", "traversal-missed-or-repeated", "traversal of t%d visited key %s twice", ti, norm)
					return
				}
				if tr.absent[norm] {
					fail("C03.R4", "traversal-absent-key", "traversal of t%d visited key %s which was absent throughout", ti, norm)
					return
				}
				if nv.IsNil() {
					fail("C03.R4", "traversal-nil-value", "traversal of t%d returned key %s with a nil value", ti, norm)
					return
				}
				hist = append(hist, fmt.Sprintf("  %c: next(t%d, %s) -> %s", 'A'+ci, ti, harness.Canon(tr.cur), harness.Canon(nk)))
				tr.cur = nk
			}
			if anyOpen(ti) {
				ctx.Count("probe.mutation while a traversal is open (opportunities)", 1)
			}
		case 4: // index through __index / __newindex: consulted only when the raw key is absent
			k := pool[pickKey()]
			calls := 0
			meta := rt.NewTable()
			idx := rt.NewGoFunction(func(th *rt.Thread, c *rt.GoCont) (rt.Cont, error) {
				calls++
				return c.PushingNext1(th.Runtime, rt.StringValue("from-index")), nil
			}, "idx", 2, false)
			idx.SolemnlyDeclareCompliance(harness.AllFlags)
			meta.Set(rt.StringValue("__index"), rt.FunctionValue(idx))
			t.SetMetatable(meta)
			got, err := rt.Index(r.MainThread(), rt.TableValue(t), k.v)
			t.SetMetatable(nil)
			op := fmt.Sprintf("index t%d[%s] with __index", ti, k.desc)
			hist = append(hist, op)
			if err != nil {
				fail("C03.R6", "index-error", "%s failed: %v", op, err)
				return
			}
			want, present := m[k.norm]
			if present && (calls != 0 || harness.Canon(got) != want) {
				fail("C03.R6", "index-consulted-for-present-key", "%s: __index called %d times, result %s, raw value %s", op, calls, harness.Canon(got), want)
				return
			}
			if !present && calls != 1 {
				fail("C03.R6", "index-not-consulted", "%s: key absent but __index called %d times (result %s)", op, calls, harness.Canon(got))
				return
			}
		case 5: // delete everything then reinsert some (tombstones)
			if anyOpen(ti) {
				continue
			}
			hist = append(hist, fmt.Sprintf("clear all keys of t%d", ti))
			for _, k := range pool {
				if _, ok := m[k.norm]; ok {
					t.Set(k.v, rt.NilValue)
					delete(m, k.norm)
				}
			}
			verify(ti, "clear-all")
		case 6: // burst of integer keys (array growth / migration)
			if anyOpen(ti) {
				continue
			}
			lo, n := g.Choose(30), 1+g.Choose(34)
			desc := g.Chance(1, 2)
			hist = append(hist, fmt.Sprintf("burst t%d[%d..%d] descending=%v", ti, lo-2, lo-2+n-1, desc))
			for j := 0; j < n; j++ {
				idx := lo + j
				if desc {
					idx = lo + n - 1 - j
				}
				if idx >= 43 {
					continue
				}
				k := pool[idx]
				bv := newVal()
				t.Set(k.v, bv)
				m[k.norm] = harness.Canon(bv)
			}
			verify(ti, "burst")
		case 8: // assignment through __newindex: consulted only when the raw key is absent
			k := pool[pickKey()]
			_, present := m[k.norm]
			if anyOpen(ti) && !present {
				continue
			}
			calls := 0
			meta := rt.NewTable()
			ni := rt.NewGoFunction(func(th *rt.Thread, c *rt.GoCont) (rt.Cont, error) {
				calls++
				return c.Next(), nil
			}, "newindex", 3, false)
			ni.SolemnlyDeclareCompliance(harness.AllFlags)
			meta.Set(rt.StringValue("__newindex"), rt.FunctionValue(ni))
			t.SetMetatable(meta)
			nv := newVal()
			err := rt.SetIndex(r.MainThread(), rt.TableValue(t), k.v, nv)
			t.SetMetatable(nil)
			op := fmt.Sprintf("t%d[%s] = %s with __newindex", ti, k.desc, harness.Canon(nv))
			hist = append(hist, op)
			if err != nil {
				fail("C03.R6", "newindex-error", "%s failed: %v", op, err)
				return
			}
			if present {
				if calls != 0 {
					fail("C03.R6", "newindex-consulted-for-present-key", "%s: the raw key is present (value %s) but __newindex was called %d times", op, m[k.norm], calls)
					return
				}
				m[k.norm] = harness.Canon(nv)
			} else if calls != 1 {
				fail("C03.R6", "newindex-not-consulted", "%s: key absent but __newindex called %d times", op, calls)
				return
			}
			verify(ti, op)
		case 7: // next from a key that is not in the table: error, never a panic
			k := pool[pickKey()]
			if _, present := m[k.norm]; present || anyOpen(ti) {
				continue
			}
			func() {
				defer func() {
					if x := recover(); x != nil {
						fail("C03.R4", "next-panic", "next(t%d, %s) panicked: %v", ti, k.desc, x)
					}
				}()
				t.Next(k.v)
			}()
		}
	}
	ctx.Count("history.ops", int64(len(hist)))
	ctx.Trivial = kills == 0 && len(hist) < 5
	ctx.Shape = core.HashStrings(hist)
	if ctx.Sample == "" {
		tail := hist
		if len(tail) > 40 {
			tail = tail[:40]
		}
		ctx.Sample = strings.Join(tail, "\n")
	}
}

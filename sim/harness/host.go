//go:build verif

// Package harness holds what engines share: runtime creation, host callbacks
// (emit / probe), canonical rendering of values, protected execution.
package harness

import (
	"bytes"
	"fmt"
	"io"
	"math"
	"regexp"
	"strconv"
	"strings"

	"github.com/arnodel/golua/lib"
	rt "github.com/arnodel/golua/runtime"

	"vsim/core"
)

// KeepDefaultWarner leaves the runtime's default warner (which writes to
// os.Stderr as it is when the runtime is created) in place.
var KeepDefaultWarner bool

// AllFlags is every compliance flag.
const AllFlags = rt.ComplyCpuSafe | rt.ComplyMemSafe | rt.ComplyTimeSafe | rt.ComplyIoSafe

// Host bundles a runtime with the simulator pieces its callbacks use.
type Host struct {
	R     *rt.Runtime
	Sched *core.Sched // nil when running without the controlled scheduler
	Log   *core.Log
	ID    int // runtime id, for multi-runtime engines
	Out   bytes.Buffer

	// Probe decides what probe(k) does: return nil to continue, or a value to raise.
	Probe func(h *Host, t *rt.Thread, k int64) *rt.Value
	// OnEmit is called after an event has been logged (still inside the callback).
	OnEmit func(h *Host, t *rt.Thread)

	Probes   int64 // number of probe invocations so far
	cleanup  func()
	stampCPU bool
}

// NewHost creates a runtime with all libraries and the host callbacks.
func NewHost(sched *core.Sched, log *core.Log, opts ...rt.RuntimeOption) *Host {
	h := &Host{Sched: sched, Log: log}
	h.R = rt.New(&h.Out, opts...)
	h.cleanup = lib.LoadAll(h.R)
	if !KeepDefaultWarner {
		h.R.SetWarner(rt.NewLogWarner(io.Discard, ""))
	}
	h.Def("emit", func(t *rt.Thread, c *rt.GoCont) (rt.Cont, error) {
		h.Emit(t, "emit", c.Etc())
		return c.Next(), nil
	}, 0, true)
	h.Def("probe", func(t *rt.Thread, c *rt.GoCont) (rt.Cont, error) {
		var k int64
		if c.NArgs() > 0 {
			k, _ = c.Arg(0).TryInt()
		}
		h.Probes++
		h.yield()
		if h.Probe != nil {
			if v := h.Probe(h, t, k); v != nil {
				return nil, rt.NewError(*v)
			}
		}
		// probe(k, v...) returns v...
		next := c.Next()
		if c.NArgs() > 1 {
			t.Push(next, c.Args()[1:]...)
		}
		t.Push(next, c.Etc()...)
		return next, nil
	}, 1, true)
	return h
}

// Def registers a host function declaring every compliance flag.
func (h *Host) Def(name string, f rt.GoFunctionFunc, nArgs int, hasEtc bool) {
	gf := h.R.SetEnvGoFunc(h.R.GlobalEnv(), name, f, nArgs, hasEtc)
	gf.SolemnlyDeclareCompliance(AllFlags)
}

func (h *Host) yield() {
	if h.Sched != nil {
		h.Sched.Yield()
	}
}

// Emit logs an event from a host callback; it is a scheduling point.
func (h *Host) Emit(t *rt.Thread, kind string, vals []rt.Value) {
	var b strings.Builder
	if h.ID != 0 {
		fmt.Fprintf(&b, "r%d ", h.ID)
	}
	b.WriteString(kind)
	for _, v := range vals {
		b.WriteByte(' ')
		b.WriteString(Canon(v))
	}
	task := 0
	if h.Sched != nil {
		task = h.Sched.Cur()
	}
	h.Log.Add(task, b.String())
	if h.OnEmit != nil {
		h.OnEmit(h, t)
	}
	h.yield()
}

// Note logs a harness-side event (not a scheduling point).
func (h *Host) Note(s string) {
	task := 0
	if h.Sched != nil {
		task = h.Sched.Cur()
	}
	h.Log.Add(task, s)
}

// Close closes the runtime (running pending finalizers), recovering panics.
func (h *Host) Close() (pan interface{}) {
	defer func() { pan = recover() }()
	if h.cleanup != nil {
		h.cleanup()
	}
	h.R.Close(nil)
	return nil
}

var reLinePrefix = regexp.MustCompile(`^([A-Za-z0-9_]+):(\d+): `)

// Canon renders a value without addresses.
func Canon(v rt.Value) string {
	switch v.Type() {
	case rt.NilType:
		return "nil"
	case rt.BoolType:
		if v.AsBool() {
			return "true"
		}
		return "false"
	case rt.IntType:
		return strconv.FormatInt(v.AsInt(), 10)
	case rt.FloatType:
		f := v.AsFloat()
		if math.IsNaN(f) {
			return "nan"
		}
		return "f" + strconv.FormatFloat(f, 'g', 17, 64)
	case rt.StringType:
		s := v.AsString()
		if len(s) > 200 {
			s = fmt.Sprintf("%s...(%d bytes, h=%x)", s[:40], len(s), core.HashString(s))
		}
		return strconv.Quote(core.Scrub(s))
	case rt.TableType:
		t := v.AsTable()
		id := t.Get(rt.StringValue("id"))
		if !id.IsNil() && id.Type() != rt.TableType {
			return "T<" + Canon(id) + ">"
		}
		return "table"
	case rt.FunctionType:
		return "function"
	case rt.ThreadType:
		return "thread"
	case rt.UserDataType:
		return "userdata"
	}
	return v.TypeName()
}

// CanonErr renders an error returned by the embedding API.
func CanonErr(err error) string {
	if err == nil {
		return "ok"
	}
	if _, ok := err.(rt.ContextTerminationError); ok {
		return "TERMINATED(" + err.Error() + ")"
	}
	if e, ok := rt.AsError(err); ok {
		return "error(" + Canon(e.Value()) + ")"
	}
	return "goerror(" + core.Scrub(err.Error()) + ")"
}

// Outcome is how a protected execution ended.
type Outcome struct {
	Values []rt.Value
	Err    error
	Panic  interface{} // Go panic that escaped (other than nothing)
}

func (o Outcome) String() string {
	if o.Panic != nil {
		if te, ok := o.Panic.(rt.ContextTerminationError); ok {
			return "PANIC(TERMINATION " + te.Error() + ")"
		}
		return fmt.Sprintf("PANIC(%v)", core.Scrub(fmt.Sprint(o.Panic)))
	}
	if o.Err != nil {
		return CanonErr(o.Err)
	}
	var parts []string
	for _, v := range o.Values {
		parts = append(parts, Canon(v))
	}
	return "return(" + strings.Join(parts, ",") + ")"
}

// Compile compiles a chunk, recovering panics.
func (h *Host) Compile(name, src string) (clos *rt.Closure, err error, pan interface{}) {
	defer func() {
		if r := recover(); r != nil {
			pan = r
		}
	}()
	clos, err = h.R.CompileAndLoadLuaChunk(name, []byte(src), rt.TableValue(h.R.GlobalEnv()))
	return
}

// Call runs a function on the main thread, recovering panics.
func (h *Host) Call(f rt.Value, args ...rt.Value) (out Outcome) {
	defer func() {
		if r := recover(); r != nil {
			out.Panic = r
		}
	}()
	term := rt.NewTerminationWith(nil, 0, true)
	err := rt.Call(h.R.MainThread(), f, args, term)
	out.Err = err
	if err == nil {
		out.Values = append([]rt.Value(nil), term.Etc()...)
	}
	return
}

// Run compiles and runs a chunk on the main thread.
func (h *Host) Run(name, src string) Outcome {
	clos, err, pan := h.Compile(name, src)
	if pan != nil {
		return Outcome{Panic: pan}
	}
	if err != nil {
		return Outcome{Err: err}
	}
	return h.Call(rt.FunctionValue(clos))
}

// RunInContext runs a chunk inside a context pushed by the host.
func (h *Host) RunInContext(def rt.RuntimeContextDef, name, src string) (ctx rt.RuntimeContext, out Outcome) {
	defer func() {
		if r := recover(); r != nil {
			out.Panic = r
		}
	}()
	var err error
	ctx, err = h.R.MainThread().CallContext(def, func() error {
		clos, cerr := h.R.CompileAndLoadLuaChunk(name, []byte(src), rt.TableValue(h.R.GlobalEnv()))
		if cerr != nil {
			return cerr
		}
		term := rt.NewTerminationWith(nil, 0, true)
		e := rt.Call(h.R.MainThread(), rt.FunctionValue(clos), nil, term)
		if e == nil {
			out.Values = append([]rt.Value(nil), term.Etc()...)
		}
		return e
	})
	out.Err = err
	return
}

//go:build verif

package core

import (
	rt "github.com/arnodel/golua/runtime"
)

// MaxEvents bounds the event log of a run.
const MaxEvents = 4000

// Log is the event log of a run.  Entries are added by whichever task runs a
// host callback; no append, no synchronisation (see sched.go).
type Log struct {
	ev       [MaxEvents]string
	task     [MaxEvents]int16
	n        int
	Overflow bool
}

// Add appends an event.
//
//go:norace
//go:noinline
func (l *Log) Add(task int, s string) {
	if l.n >= MaxEvents {
		l.Overflow = true
		return
	}
	l.ev[l.n] = s
	l.task[l.n] = int16(task)
	l.n++
}

var logPool []*Log

// GetLog returns an empty log (reused between runs; main task only).
func GetLog() *Log {
	if n := len(logPool); n > 0 {
		l := logPool[n-1]
		logPool = logPool[:n-1]
		return l
	}
	return &Log{}
}

// PutLog recycles a log.
func PutLog(l *Log) {
	for i := 0; i < l.n; i++ {
		l.ev[i] = ""
	}
	l.n = 0
	l.Overflow = false
	if len(logPool) < 8 {
		logPool = append(logPool, l)
	}
}

// Len returns the number of events.
//
//go:norace
func (l *Log) Len() int { return l.n }

// Events returns a copy of the events.
func (l *Log) Events() []string {
	out := make([]string, l.n)
	copy(out, l.ev[:l.n])
	return out
}

// Task returns the task that emitted event i.
func (l *Log) Task(i int) int { return int(l.task[i]) }

// Clock is the simulated wall clock (ms).
type Clock struct {
	ms uint64
}

//go:norace
//go:noinline
func (c *Clock) Now() uint64 { return c.ms }

//go:norace
//go:noinline
func (c *Clock) Advance(d uint64) { c.ms += d }

//go:norace
//go:noinline
func (c *Clock) Back(d uint64) {
	if d > c.ms {
		d = c.ms
	}
	c.ms -= d
}

// InstallClock makes golua read c instead of the wall clock.
func InstallClock(c *Clock) {
	if c == nil {
		rt.VerifClockHook = nil
		return
	}
	rt.VerifClockHook = c.Now
}

package core

import (
	"bufio"
	"bytes"
	"encoding/json"
	"fmt"
	"io"
	"os"
	"os/exec"
	"path/filepath"
	"regexp"
	"sort"
	"strings"
	"sync"
	"syscall"
	"time"
)

// Batch is one homogeneous set of runs: an engine in a mode, executed by one
// build variant of the worker binary.
type Batch struct {
	Engine   string
	Mode     string
	Variant  string            // build variant of the worker ("", "race", "noregpool", ...)
	Runs     uint64            // number of runs (upper bound)
	Millis   int64             // wall budget per worker, 0 = none
	Workers  int               // 0 = default
	Env      []string          // extra environment
	HangS    int               // watchdog per run, seconds (0 = default 30)
	Chunk    int               // runs per worker process (0 = default 1500)
	Note     string            // for evidence
	Retries  int               // extra replay attempts before a violation counts as not reproduced (engines that leave a judgement to a real, not simulated, component: the Go collector)
	Sound    bool              // data race reports of this batch are reported as they are (not replayable, but never false)
	DiffBase string            // if set (use "std" for the default build): runs are also executed by that variant and the event logs must be equal
	Extra    map[string]string // free
}

// CheckSpec describes a check of one property.
type CheckSpec struct {
	Property string
	Tier     string
	Seed     uint64
	Level    string
	Rule     string // how cases are generated / what is non-trivial (for evidence)
	Batches  []Batch
	BinDir   string
	OutDir   string // /verif
	Assume   []string
	Real     []string // components that ran real code
	Stub     []string // components that were simulated
	// Post is called with the aggregated result before evidence is written
	// (engines use it for cross-batch oracles).
	Post func(res *CheckResult)
}

// Found is a violation found by the search.
type Found struct {
	Batch  Batch
	Report RunReport
	Crash  bool
}

// CheckResult aggregates what a check did.
type CheckResult struct {
	Stats      Stats
	ShapeSet   map[uint64]struct{}
	Found      []Found
	PerBatch   []BatchResult
	HangsUnc   int
	InfraError string
	Hashes     map[string]map[uint64]uint64 // variant/mode -> run idx -> log hash (cross-build comparison)
}

// BatchResult is the per-batch summary for evidence.
type BatchResult struct {
	Engine  string           `json:"engine"`
	Mode    string           `json:"mode"`
	Variant string           `json:"variant"`
	Runs    int64            `json:"runs"`
	WallS   float64          `json:"wall_s"`
	PerHour int64            `json:"runs_per_hour"`
	Counts  map[string]int64 `json:"counts,omitempty"`
	Note    string           `json:"note,omitempty"`
}

// KnownFinding is one entry of /verif/known_findings.json.
type KnownFinding struct {
	Property  string `json:"property"`
	Rule      string `json:"rule"`
	Signature string `json:"signature"` // matched as a prefix of the violation signature
	What      string `json:"what"`
	Replay    string `json:"replay,omitempty"`
	Status    string `json:"status"` // "open" or "fixed: ..."
}

// ReplayFile is the on-disk form of a (minimised) violation.
type ReplayFile struct {
	Property  string   `json:"property"`
	Rule      string   `json:"rule"`
	Signature string   `json:"signature"`
	Message   string   `json:"message"`
	Engine    string   `json:"engine"`
	Mode      string   `json:"mode"`
	Variant   string   `json:"variant"`
	DiffBase  string   `json:"diff_base,omitempty"`
	Env       []string `json:"env,omitempty"`
	Seed      uint64   `json:"seed"`
	Run       uint64   `json:"run"`
	Gen       []uint32 `json:"gen"`
	Sch       []uint32 `json:"sch"`
	Rendered  string   `json:"rendered,omitempty"`
	LogHash   uint64   `json:"log_hash"`
}

func binPath(dir, variant string) string {
	if variant == "" {
		return filepath.Join(dir, "vsim")
	}
	return filepath.Join(dir, "vsim-"+variant)
}

// worker is a running worker process.
type worker struct {
	cmd       *exec.Cmd
	stdin     io.WriteCloser
	out       *bufio.Reader
	stderr    *bytes.Buffer
	lines     chan string
	timer     *time.Timer
	traceFile string
}

func startWorker(bin string, env []string) (*worker, error) {
	cmd := exec.Command(bin, "worker")
	traceFile := ""
	for _, e := range env {
		if e == "VSIM_STRACE=1" {
			// system-call seam: the worker runs under strace and reads its own trace (file, network
			// and process calls only) to check what a call did at the operating-system boundary
			f, err := os.CreateTemp("/var/tmp", "vsim-strace-")
			if err != nil {
				return nil, err
			}
			traceFile = f.Name()
			f.Close()
			cmd = exec.Command("strace", "-f", "-qq", "--seccomp-bpf", "-s", "300", "-e", "trace=file,network,process", "-o", traceFile, bin, "worker")
			cmd.SysProcAttr = &syscall.SysProcAttr{Setpgid: true}
		}
	}
	cmd.Env = append(os.Environ(), "GORACE=halt_on_error=1 exitcode=66", "GOTRACEBACK=all", "GOMAXPROCS=1")
	cmd.Env = append(cmd.Env, env...)
	if traceFile != "" {
		cmd.Env = append(cmd.Env, "VSIM_TRACE_FILE="+traceFile)
	}
	stdin, err := cmd.StdinPipe()
	if err != nil {
		return nil, err
	}
	stdout, err := cmd.StdoutPipe()
	if err != nil {
		return nil, err
	}
	w := &worker{cmd: cmd, stdin: stdin, out: bufio.NewReaderSize(stdout, 1<<20), stderr: &bytes.Buffer{}, lines: make(chan string, 4096), traceFile: traceFile}
	cmd.Stderr = &capWriter{buf: w.stderr, max: 1 << 18}
	if err := cmd.Start(); err != nil {
		return nil, err
	}
	go func() {
		for {
			s, err := w.out.ReadString('\n')
			if s != "" {
				w.lines <- strings.TrimRight(s, "\n")
			}
			if err != nil {
				close(w.lines)
				return
			}
		}
	}()
	return w, nil
}

type capWriter struct {
	buf *bytes.Buffer
	max int
	mu  sync.Mutex
}

func (c *capWriter) Write(p []byte) (int, error) {
	c.mu.Lock()
	defer c.mu.Unlock()
	if c.buf.Len() < c.max {
		c.buf.Write(p)
	}
	return len(p), nil
}

func batchNeedsStrace(b Batch) bool {
	for _, e := range b.Env {
		if e == "VSIM_STRACE=1" {
			return true
		}
	}
	return false
}

var straceOK = -1

// straceWorks tells whether strace can trace a child here (ptrace may be forbidden).
func straceWorks() bool {
	if straceOK < 0 {
		straceOK = 0
		if err := exec.Command("strace", "-f", "-qq", "--seccomp-bpf", "-e", "trace=file", "-o", os.DevNull, "true").Run(); err == nil {
			straceOK = 1
		}
	}
	return straceOK == 1
}

// wait reaps a worker that has ended by itself.
func (w *worker) wait() {
	w.cmd.Wait()
	if w.traceFile != "" {
		os.Remove(w.traceFile)
	}
}

func (w *worker) kill() {
	if w.cmd.Process != nil {
		if w.traceFile != "" {
			syscall.Kill(-w.cmd.Process.Pid, syscall.SIGKILL) // the tracer and the traced worker
		}
		w.cmd.Process.Kill()
	}
	w.cmd.Wait()
	if w.traceFile != "" {
		os.Remove(w.traceFile)
	}
}

// line reads one line with a timeout; eof=true when the worker closed its
// output, hang=true on timeout.
func (w *worker) line(timeout time.Duration) (s string, eof bool, hang bool) {
	if w.timer == nil {
		w.timer = time.NewTimer(timeout)
	} else {
		if !w.timer.Stop() {
			select {
			case <-w.timer.C:
			default:
			}
		}
		w.timer.Reset(timeout)
	}
	select {
	case l, ok := <-w.lines:
		if !ok {
			return "", true, false
		}
		return l, false, false
	case <-w.timer.C:
		return "", false, true
	}
}

var (
	reGoluaFrame = regexp.MustCompile(`github\.com/arnodel/golua/([A-Za-z0-9_/.]+)\.([A-Za-z0-9_().*]+)`)
)

// CrashSignature reduces the stderr of a dead worker to a stable signature.
func CrashSignature(stderr string, exitErr string) (rule, sig, msg string) {
	lines := strings.Split(stderr, "\n")
	frames := func(from int, max int) []string {
		var fs []string
		for i := from; i < len(lines) && len(fs) < max; i++ {
			l := strings.TrimSpace(lines[i])
			if strings.HasPrefix(l, "goroutine ") && len(fs) > 0 {
				break
			}
			if strings.HasPrefix(l, "Previous ") || strings.HasPrefix(l, "Goroutine ") {
				if len(fs) > 0 {
					break
				}
			}
			if m := reGoluaFrame.FindStringSubmatch(l); m != nil && !strings.Contains(l, ".go:") {
				f := m[1] + "." + m[2]
				f = strings.TrimSuffix(f, "(...)")
				// drop the argument list of panic traces: "pkg.(*T).method(0xc000..., ...)"
				for k := 0; k < len(f); k++ {
					if f[k] == '(' && !(k+1 < len(f) && f[k+1] == '*') {
						f = f[:k]
						break
					}
				}
				if len(fs) == 0 || fs[len(fs)-1] != f {
					fs = append(fs, f)
				}
			}
		}
		return fs
	}
	for i, l := range lines {
		if strings.HasPrefix(l, "WARNING: DATA RACE") {
			// two access blocks: current and previous
			var a, b []string
			a = frames(i+1, 1)
			for j := i + 1; j < len(lines); j++ {
				if strings.HasPrefix(lines[j], "Previous ") {
					b = frames(j+1, 1)
					break
				}
			}
			pair := append(a, b...)
			sort.Strings(pair)
			// accesses made by harness code itself are a defect of the machinery, not of golua
			topIsHarness := func(from int) bool {
				for k := from; k < len(lines); k++ {
					l := strings.TrimSpace(lines[k])
					if l == "" {
						return false
					}
					if strings.HasPrefix(l, "vsim/") {
						return true
					}
					if strings.Contains(l, "(") && !strings.HasPrefix(l, "/") {
						return false
					}
				}
				return false
			}
			prev := len(lines)
			for j := i + 1; j < len(lines); j++ {
				if strings.HasPrefix(lines[j], "Previous ") {
					prev = j
					break
				}
			}
			if topIsHarness(i+2) || topIsHarness(prev+1) {
				return "HARNESS", "harness-race[" + strings.Join(pair, " | ") + "]", "data race inside the harness: " + tailOf(stderr, 1500)
			}
			return "RACE", "race[" + strings.Join(pair, " | ") + "]", "data race: " + strings.Join(pair, " vs ")
		}
	}
	for i, l := range lines {
		if strings.HasPrefix(l, "vsim: scheduler abort: ") {
			rest := strings.TrimPrefix(l, "vsim: scheduler abort: ")
			kind := rest
			if k := strings.Index(rest, ":"); k > 0 {
				kind = rest[:k]
			}
			if kind == "deadlock" {
				return "DEADLOCK", "deadlock[" + deadlockShape(rest) + "]", rest
			}
			return "ABORT", "abort[" + kind + "]", rest
		}
		if strings.HasPrefix(l, "panic: ") || strings.HasPrefix(l, "fatal error: ") {
			// a chain "panic: A [recovered]\n\tpanic: B": the last one is what killed the process
			for i+1 < len(lines) && strings.HasPrefix(strings.TrimSpace(lines[i+1]), "panic: ") {
				i++
				l = strings.TrimSpace(lines[i])
			}
			text := Scrub(l)
			if len(text) > 120 {
				text = text[:120]
			}
			if k := strings.Index(text, " [recovered]"); k > 0 {
				text = text[:k]
			}
			text = reDigits.ReplaceAllString(text, "N")
			fs := frames(i+1, 40)
			// keep the two innermost golua frames that are not panic plumbing
			var keep []string
			for _, f := range fs {
				if strings.Contains(f, "verifSched") || strings.Contains(f, "VerifSchedHook") {
					continue
				}
				keep = append(keep, f)
				if len(keep) == 2 {
					break
				}
			}
			fs = keep
			return "CRASH", "crash[" + text + " @ " + strings.Join(fs, " < ") + "]", l
		}
	}
	tail := stderr
	if len(tail) > 300 {
		tail = tail[len(tail)-300:]
	}
	return "CRASH", "crash[exit " + exitErr + "]", "worker died: " + exitErr + " stderr tail: " + tail
}

var reDigits = regexp.MustCompile(`\d+`)

var reTaskNum = regexp.MustCompile(`(task|thread#)\d+`)

// deadlockShape abstracts task and thread numbers away from a wait-for graph.
func deadlockShape(s string) string {
	parts := strings.Split(s, ";")
	set := map[string]bool{}
	for _, p := range parts {
		p = strings.TrimSpace(p)
		if p == "" || strings.HasPrefix(p, "deadlock") && !strings.Contains(p, "task") {
			continue
		}
		p = strings.TrimPrefix(p, "deadlock: ")
		selfHeld := false
		if m := regexp.MustCompile(`^task(\d+) waits for mutex of thread#\d+ held by task(\d+)$`).FindStringSubmatch(p); m != nil && m[1] == m[2] {
			selfHeld = true
		}
		p = reTaskNum.ReplaceAllString(p, "$1")
		if selfHeld {
			p += " (itself)"
		}
		set[p] = true
	}
	var keys []string
	for k := range set {
		keys = append(keys, k)
	}
	sort.Strings(keys)
	return strings.Join(keys, "; ")
}

// runSearchWorker drives one worker over its share of a batch.
func runSearchWorker(spec *CheckSpec, b Batch, k, nw int, res *CheckResult, mu *sync.Mutex) {
	bin := binPath(spec.BinDir, b.Variant)
	from := uint64(k)
	hang := time.Duration(b.HangS) * time.Second
	if b.HangS == 0 {
		hang = 30 * time.Second
	}
	deadline := time.Time{}
	if b.Millis > 0 {
		deadline = time.Now().Add(time.Duration(b.Millis) * time.Millisecond)
	}
	crashes := 0
	for from < b.Runs {
		millis := int64(0)
		if !deadline.IsZero() {
			millis = time.Until(deadline).Milliseconds()
			if millis <= 0 {
				return
			}
		}
		w, err := startWorker(bin, b.Env)
		if err != nil {
			mu.Lock()
			res.InfraError = "cannot start worker: " + err.Error()
			mu.Unlock()
			return
		}
		chunk := uint64(b.Chunk)
		if chunk == 0 {
			chunk = 1500
		}
		to := from + chunk*uint64(nw)
		if to > b.Runs {
			to = b.Runs
		}
		cmd := Command{Op: "search", Engine: b.Engine, Mode: b.Mode, Tier: spec.Tier, Seed: spec.Seed, From: from, To: to, Stride: uint64(nw), Millis: millis}
		js, _ := json.Marshal(cmd)
		w.stdin.Write(append(js, '\n'))
		last := from
		started := false
		finished := false
		for {
			s, eof, hung := w.line(hang)
			if hung {
				w.kill()
				if !started {
					mu.Lock()
					res.InfraError = "worker did not start a run in time"
					mu.Unlock()
					return
				}
				mu.Lock()
				res.Found = append(res.Found, Found{Batch: b, Crash: true, Report: RunReport{Idx: last, Violation: &Violation{Property: spec.Property, Rule: "HANG", Signature: "HANG:hang", Message: fmt.Sprintf("run %d did not finish within %v", last, hang)}}})
				mu.Unlock()
				from = last + uint64(nw)
				break
			}
			if eof {
				w.wait()
				if finished {
					// next chunk in a fresh process (suspended coroutines leave parked goroutines behind)
					from = last + uint64(nw)
					break
				}
				if !started {
					mu.Lock()
					res.InfraError = "worker died before running anything: " + tailOf(w.stderr.String(), 400)
					mu.Unlock()
					return
				}
				exitS := "?"
				if w.cmd.ProcessState != nil {
					exitS = w.cmd.ProcessState.String()
				}
				rule, sig, msg := CrashSignature(w.stderr.String(), exitS)
				mu.Lock()
				res.Found = append(res.Found, Found{Batch: b, Crash: true, Report: RunReport{Idx: last, Violation: &Violation{Property: spec.Property, Rule: rule, Signature: rule + ":" + sig, Message: msg}}})
				mu.Unlock()
				crashes++
				from = last + uint64(nw)
				break
			}
			switch {
			case strings.HasPrefix(s, "R "):
				fmt.Sscanf(s[2:], "%d", &last)
				started = true
			case strings.HasPrefix(s, "H "):
				var idx, hv uint64
				fmt.Sscanf(s[2:], "%d %d", &idx, &hv)
				mu.Lock()
				key := b.Mode + "|" + b.Variant
				if res.Hashes == nil {
					res.Hashes = map[string]map[uint64]uint64{}
				}
				if res.Hashes[key] == nil {
					res.Hashes[key] = map[uint64]uint64{}
				}
				res.Hashes[key][idx] = hv
				mu.Unlock()
			case strings.HasPrefix(s, "V "):
				var rep RunReport
				if json.Unmarshal([]byte(s[2:]), &rep) == nil {
					mu.Lock()
					if len(res.Found) < 5000 {
						res.Found = append(res.Found, Found{Batch: b, Report: rep})
					}
					mu.Unlock()
				}
			case strings.HasPrefix(s, "S "):
				var st Stats
				if json.Unmarshal([]byte(s[2:]), &st) == nil {
					mu.Lock()
					mergeStats(res, &st, b)
					mu.Unlock()
				}
				finished = true
				w.stdin.Close()
			}
		}
		if crashes > 200 {
			return // every run crashes: enough evidence
		}
	}
}

func tailOf(s string, n int) string {
	if len(s) > n {
		return s[len(s)-n:]
	}
	return s
}

func mergeStats(res *CheckResult, st *Stats, b Batch) {
	res.Stats.Runs += st.Runs
	res.Stats.Nontrivial += st.Nontrivial
	res.Stats.SimMs += st.SimMs
	res.Stats.Ticks += st.Ticks
	if res.Stats.Counts == nil {
		res.Stats.Counts = map[string]int64{}
	}
	for k, v := range st.Counts {
		res.Stats.Counts[k] += v
	}
	for _, h := range st.Shapes {
		res.ShapeSet[h] = struct{}{}
	}
	if len(res.Stats.Samples) < 6 {
		res.Stats.Samples = append(res.Stats.Samples, st.Samples...)
	}
	for i := range res.PerBatch {
		pb := &res.PerBatch[i]
		if pb.Engine == b.Engine && pb.Mode == b.Mode && pb.Variant == b.Variant {
			pb.Runs += st.Runs
			for k, v := range st.Counts {
				pb.Counts[k] += v
			}
		}
	}
}

// Replay executes one tape pair in a fresh worker and returns the report (or a
// crash report).
func replayOne(binDir string, b Batch, tier string, gen, sch []uint32, hang time.Duration) RunReport {
	w, err := startWorker(binPath(binDir, b.Variant), b.Env)
	if err != nil {
		return RunReport{Violation: &Violation{Rule: "INFRA", Signature: "INFRA:start", Message: err.Error()}}
	}
	defer w.kill()
	cmd := Command{Op: "replay", Engine: b.Engine, Mode: b.Mode, Tier: tier, Gen: gen, Sch: sch}
	js, _ := json.Marshal(cmd)
	w.stdin.Write(append(js, '\n'))
	for {
		s, eof, hung := w.line(hang)
		if hung {
			return RunReport{Gen: gen, Sch: sch, Violation: &Violation{Rule: "HANG", Signature: "HANG:hang", Message: "replay did not finish"}}
		}
		if eof {
			w.wait()
			exitS := "?"
			if w.cmd.ProcessState != nil {
				exitS = w.cmd.ProcessState.String()
			}
			rule, sig, msg := CrashSignature(w.stderr.String(), exitS)
			return RunReport{Gen: gen, Sch: sch, Violation: &Violation{Rule: rule, Signature: rule + ":" + sig, Message: msg}}
		}
		if strings.HasPrefix(s, "P ") {
			var rep RunReport
			json.Unmarshal([]byte(s[2:]), &rep)
			w.stdin.Close()
			return rep
		}
	}
}

// Replay executes one tape pair in a fresh worker and returns the report (or a
// crash report).  For differential batches the tape is also executed by the base
// variant and a difference of the event logs is the violation.
func Replay(binDir string, b Batch, tier string, gen, sch []uint32, hang time.Duration) RunReport {
	rep := replayOne(binDir, b, tier, gen, sch, hang)
	if b.DiffBase == "" || rep.Violation != nil {
		return rep
	}
	bb := b
	bb.Variant = baseVariant(b.DiffBase)
	bb.DiffBase = ""
	base := replayOne(binDir, bb, tier, gen, sch, hang)
	return diffReports(b, rep, base)
}

func baseVariant(v string) string {
	if v == "std" {
		return ""
	}
	return v
}

func diffReports(b Batch, rep, base RunReport) RunReport {
	if base.Violation != nil {
		return base
	}
	if rep.LogHash == base.LogHash {
		return rep
	}
	d := 0
	for d < len(rep.Log) && d < len(base.Log) && rep.Log[d] == base.Log[d] {
		d++
	}
	get := func(l []string, i int) string {
		if i < len(l) {
			return l[i]
		}
		return "<end>"
	}
	v := b.Variant
	if v == "" {
		v = "std"
	}
	rep.Violation = &Violation{Rule: "XBUILD", Signature: "XBUILD:log-differs:" + v + "-vs-" + b.DiffBase,
		Message: fmt.Sprintf("event log of build %q differs from build %q at #%d: %s vs %s", v, b.DiffBase, d, get(rep.Log, d), get(base.Log, d))}
	return rep
}

// persistent replay worker for the minimiser (restarted after crashes)
type replayer struct {
	binDir string
	b      Batch
	tier   string
	hang   time.Duration
	w      *worker
	base   *replayer
	Execs  int
}

func (r *replayer) run(gen, sch []uint32) RunReport {
	r.Execs++
	rep := r.runOne(gen, sch)
	if r.b.DiffBase == "" || rep.Violation != nil {
		return rep
	}
	if r.base == nil {
		bb := r.b
		bb.Variant = baseVariant(r.b.DiffBase)
		bb.DiffBase = ""
		r.base = &replayer{binDir: r.binDir, b: bb, tier: r.tier, hang: r.hang}
	}
	return diffReports(r.b, rep, r.base.runOne(gen, sch))
}

func (r *replayer) runOne(gen, sch []uint32) RunReport {
	if r.w == nil {
		w, err := startWorker(binPath(r.binDir, r.b.Variant), r.b.Env)
		if err != nil {
			return RunReport{Violation: &Violation{Rule: "INFRA", Signature: "INFRA:start", Message: err.Error()}}
		}
		r.w = w
	}
	w := r.w
	cmd := Command{Op: "replay", Engine: r.b.Engine, Mode: r.b.Mode, Tier: r.tier, Gen: gen, Sch: sch}
	js, _ := json.Marshal(cmd)
	w.stdin.Write(append(js, '\n'))
	for {
		s, eof, hung := w.line(r.hang)
		if hung {
			w.kill()
			r.w = nil
			return RunReport{Violation: &Violation{Rule: "HANG", Signature: "HANG:hang", Message: "replay did not finish"}}
		}
		if eof {
			w.wait()
			exitS := "?"
			if w.cmd.ProcessState != nil {
				exitS = w.cmd.ProcessState.String()
			}
			rule, sig, msg := CrashSignature(w.stderr.String(), exitS)
			r.w = nil
			return RunReport{Violation: &Violation{Rule: rule, Signature: rule + ":" + sig, Message: msg}}
		}
		if strings.HasPrefix(s, "P ") {
			var rep RunReport
			json.Unmarshal([]byte(s[2:]), &rep)
			return rep
		}
	}
}

func (r *replayer) close() {
	if r.base != nil {
		r.base.close()
	}
	if r.w != nil {
		r.w.stdin.Close()
		r.w.kill()
		r.w = nil
	}
}

func trimZeros(v []uint32) []uint32 {
	for len(v) > 0 && v[len(v)-1] == 0 {
		v = v[:len(v)-1]
	}
	return v
}

// Minimise shrinks (gen, sch) while the same signature is reported.
func Minimise(binDir string, b Batch, tier string, sig string, gen, sch []uint32, budget time.Duration, maxExecs int) ([]uint32, []uint32, RunReport, int) {
	hang := 30 * time.Second
	if b.HangS > 0 {
		hang = time.Duration(b.HangS) * time.Second
	}
	r := &replayer{binDir: binDir, b: b, tier: tier, hang: hang}
	defer r.close()
	deadline := time.Now().Add(budget)
	gen = append([]uint32(nil), trimZeros(gen)...)
	sch = append([]uint32(nil), trimZeros(sch)...)
	best := r.run(gen, sch)
	for try := 0; try < b.Retries && (best.Violation == nil || best.Violation.Signature != sig); try++ {
		best = r.run(gen, sch)
	}
	if best.Violation == nil || best.Violation.Signature != sig {
		return gen, sch, best, r.Execs
	}
	same := func(g, s []uint32) bool {
		if time.Now().After(deadline) || r.Execs >= maxExecs {
			return false
		}
		rep := r.run(g, s)
		if rep.Violation != nil && rep.Violation.Signature == sig {
			best = rep
			return true
		}
		return false
	}
	lanes := []*[]uint32{&sch, &gen}
	for round := 0; round < 3; round++ {
		changed := false
		for li, lane := range lanes {
			// zero spans, halving
			for span := len(*lane); span >= 1; span /= 2 {
				for start := 0; start < len(*lane); start += span {
					end := start + span
					if end > len(*lane) {
						end = len(*lane)
					}
					allZero := true
					for _, v := range (*lane)[start:end] {
						if v != 0 {
							allZero = false
							break
						}
					}
					if allZero {
						continue
					}
					cand := append([]uint32(nil), *lane...)
					for i := start; i < end; i++ {
						cand[i] = 0
					}
					var ok bool
					if li == 0 {
						ok = same(gen, cand)
					} else {
						ok = same(cand, sch)
					}
					if ok {
						*lane = trimZeros(cand)
						changed = true
					}
				}
				if time.Now().After(deadline) || r.Execs >= maxExecs {
					break
				}
			}
			// delete single elements (shifts the rest), then lower values
			for i := 0; i < len(*lane) && len(*lane) <= 200; i++ {
				cand := append(append([]uint32(nil), (*lane)[:i]...), (*lane)[i+1:]...)
				var ok bool
				if li == 0 {
					ok = same(gen, cand)
				} else {
					ok = same(cand, sch)
				}
				if ok {
					*lane = trimZeros(cand)
					changed = true
					i--
				}
			}
			for i := 0; i < len(*lane) && len(*lane) <= 400; i++ {
				v := (*lane)[i]
				if v == 0 {
					continue
				}
				for _, nv := range []uint32{v % 2, v % 4, v % 16, v % 256, v % 65536} {
					if nv >= v {
						continue
					}
					cand := append([]uint32(nil), *lane...)
					cand[i] = nv
					var ok bool
					if li == 0 {
						ok = same(gen, cand)
					} else {
						ok = same(cand, sch)
					}
					if ok {
						*lane = trimZeros(cand)
						changed = true
						break
					}
				}
			}
		}
		if !changed || time.Now().After(deadline) || r.Execs >= maxExecs {
			break
		}
	}
	return gen, sch, best, r.Execs
}

// LoadKnown reads known_findings.json.
func LoadKnown(path string) []KnownFinding {
	b, err := os.ReadFile(path)
	if err != nil {
		return nil
	}
	var k []KnownFinding
	if err := json.Unmarshal(b, &k); err != nil {
		fmt.Fprintf(os.Stderr, "vsim: cannot parse %s: %v\n", path, err)
		os.Exit(2)
	}
	return k
}

func matchKnown(known []KnownFinding, prop, sig string) *KnownFinding {
	for i := range known {
		k := &known[i]
		if k.Status != "open" {
			continue
		}
		if k.Property != prop {
			continue
		}
		if strings.HasPrefix(sig, k.Signature) {
			return k
		}
	}
	return nil
}

// RunCheck executes a check and returns the process exit code.
func RunCheck(spec *CheckSpec) int {
	start := time.Now()
	res := &CheckResult{ShapeSet: map[uint64]struct{}{}}
	res.Stats.Counts = map[string]int64{}
	var mu sync.Mutex
	known := LoadKnown(filepath.Join(spec.OutDir, "known_findings.json"))

	// 1. replay the corpus of this property (fixed findings must pass; open ones must still fail the same way)
	corpusViol := replayCorpus(spec, known)

	// 2. seeded search
	for _, b := range spec.Batches {
		if batchNeedsStrace(b) && !straceWorks() {
			// the system-call seam needs ptrace: without it the batch is left out (and said so), the
			// other batches of the property still decide
			fmt.Printf("NOTE: batch %s/%s skipped: strace cannot trace in this environment\n", b.Engine, b.Mode)
			res.PerBatch = append(res.PerBatch, BatchResult{Engine: b.Engine, Mode: b.Mode, Variant: b.Variant, Counts: map[string]int64{}, Note: "SKIPPED (strace unavailable): " + b.Note})
			continue
		}
		nw := b.Workers
		if nw == 0 {
			nw = 16
		}
		if uint64(nw) > b.Runs {
			nw = int(b.Runs)
		}
		res.PerBatch = append(res.PerBatch, BatchResult{Engine: b.Engine, Mode: b.Mode, Variant: b.Variant, Counts: map[string]int64{}, Note: b.Note})
		bstart := time.Now()
		var wg sync.WaitGroup
		for k := 0; k < nw; k++ {
			wg.Add(1)
			go func(k int) {
				defer wg.Done()
				runSearchWorker(spec, b, k, nw, res, &mu)
			}(k)
		}
		wg.Wait()
		pb := &res.PerBatch[len(res.PerBatch)-1]
		pb.WallS = time.Since(bstart).Seconds()
		if pb.WallS > 0 {
			pb.PerHour = int64(float64(pb.Runs) / pb.WallS * 3600)
		}
		if res.InfraError != "" {
			break
		}
	}
	if spec.Post != nil {
		spec.Post(res)
	}
	crossBuild(spec, res)

	// 3. classify violations: group by signature, minimise and confirm the new ones
	type group struct {
		sig   string
		first Found
		n     int
	}
	groups := map[string]*group{}
	var order []string
	for _, f := range res.Found {
		sig := f.Report.Violation.Signature
		g := groups[sig]
		if g == nil {
			g = &group{sig: sig, first: f}
			groups[sig] = g
			order = append(order, sig)
		} else if f.Batch.Sound && !g.first.Batch.Sound && f.Report.Violation.Rule == "RACE" {
			// the same race also reported by a truly parallel batch: reported as it is
			g.first = f
		}
		g.n++
	}
	sort.Strings(order)
	exit := 0
	knownHit := map[string]int{}
	var newViol []string
	nMin := 0
	for _, sig := range order {
		g := groups[sig]
		v := g.first.Report.Violation
		prop := v.Property
		if prop == "" {
			prop = spec.Property
		}
		if k := matchKnown(known, spec.Property, sig); k != nil {
			knownHit[k.Signature] += g.n
			continue
		}
		if v.Rule == "HARNESS" {
			res.InfraError = "harness defect: " + sig + " " + v.Message
			continue
		}
		if v.Rule == "HANG" || v.Rule == "ABORT" {
			// confirm by replaying the run twice more
			gen := SearchTape(spec.Seed, g.first.Batch.Engine+"/"+g.first.Batch.Mode+"/gen", g.first.Report.Idx).vals
			sch := SearchTape(spec.Seed, g.first.Batch.Engine+"/"+g.first.Batch.Mode+"/sch", g.first.Report.Idx).vals
			conf := 0
			for i := 0; i < 2; i++ {
				rep := Replay(spec.BinDir, g.first.Batch, spec.Tier, gen, sch, 60*time.Second)
				if rep.Violation != nil && rep.Violation.Signature == sig {
					conf++
				}
			}
			if conf < 2 {
				res.HangsUnc++
				fmt.Printf("NOTE: unconfirmed %s of run %d (%s/%s) ignored\n", v.Rule, g.first.Report.Idx, g.first.Batch.Engine, g.first.Batch.Mode)
				continue
			}
		}
		if v.Rule == "RACE" && g.first.Batch.Sound {
			path := writeReplay(spec, g.first, g.first.Report, spec.Seed)
			fmt.Printf("violation: %s\n  %s\n  (reported by the race detector in a truly parallel run: not replayable by construction)\n", sig, v.Message)
			fmt.Printf("VIOLATION property=%s replay=%s\n", spec.Property, path)
			newViol = append(newViol, sig)
			exit = 1
			continue
		}
		if nMin >= 4 {
			// enough distinct new violations minimised; report the rest unminimised
			path := writeReplay(spec, g.first, g.first.Report, spec.Seed)
			fmt.Printf("VIOLATION property=%s replay=%s\n", spec.Property, path)
			newViol = append(newViol, sig)
			exit = 1
			continue
		}
		nMin++
		gen, sch := g.first.Report.Gen, g.first.Report.Sch
		if g.first.Crash || gen == nil {
			gen = SearchTape(spec.Seed, g.first.Batch.Engine+"/"+g.first.Batch.Mode+"/gen", g.first.Report.Idx).vals
			sch = SearchTape(spec.Seed, g.first.Batch.Engine+"/"+g.first.Batch.Mode+"/sch", g.first.Report.Idx).vals
		}
		budget, maxE := 60*time.Second, 1500
		if spec.Tier == "thorough" {
			budget, maxE = 120*time.Second, 3000
		}
		mg, ms, rep, execs := Minimise(spec.BinDir, g.first.Batch, spec.Tier, sig, gen, sch, budget, maxE)
		if rep.Violation == nil || rep.Violation.Signature != sig {
			// does not reproduce from its tape: nondeterminism in the harness or a flaky crash; do not raise an alarm
			fmt.Printf("NOTE: violation %q of run %d did not reproduce on replay (got %v); not reported\n", sig, g.first.Report.Idx, sigOf(rep))
			res.HangsUnc++
			continue
		}
		// confirm in a fresh process
		conf := Replay(spec.BinDir, g.first.Batch, spec.Tier, mg, ms, 60*time.Second)
		if v.Rule == "RACE" || g.first.Batch.Retries > 0 {
			// the race detector keeps a bounded access history: a report is never false but the same
			// execution does not always produce it; give the replay a few more attempts, then fall back
			// to the tape as found
			for try := 0; try < 6 && (conf.Violation == nil || conf.Violation.Signature != sig); try++ {
				if try == 3 {
					mg, ms = gen, sch
				}
				conf = Replay(spec.BinDir, g.first.Batch, spec.Tier, mg, ms, 60*time.Second)
			}
		}
		if conf.Violation == nil || conf.Violation.Signature != sig {
			fmt.Printf("NOTE: minimised violation %q did not reproduce in a fresh process (got %v); not reported\n", sig, sigOf(conf))
			res.HangsUnc++
			continue
		}
		conf.Idx = g.first.Report.Idx
		conf.Gen, conf.Sch = mg, ms
		path := writeReplay(spec, g.first, conf, spec.Seed)
		fmt.Printf("violation: %s\n  %s\n  occurrences=%d minimiser_execs=%d gen=%d sch=%d values\n", sig, conf.Violation.Message, g.n, execs, len(mg), len(ms))
		if conf.Sample != "" {
			fmt.Printf("  case:\n%s\n", indent(conf.Sample, "    "))
		}
		fmt.Printf("VIOLATION property=%s replay=%s\n", spec.Property, path)
		newViol = append(newViol, sig)
		exit = 1
	}
	for _, k := range known {
		if k.Status == "open" && k.Property == spec.Property {
			fmt.Printf("KNOWN-FINDING: property=%s %s [%s] (hit %d times in this run)\n", k.Property, k.What, k.Signature, knownHit[k.Signature])
		}
	}
	if corpusViol > 0 {
		exit = 1
	}
	if res.InfraError != "" {
		fmt.Printf("INFRASTRUCTURE ERROR: %s\n", res.InfraError)
		if exit == 0 {
			exit = 2
		}
	}
	writeEvidence(spec, res, time.Since(start), len(newViol)+corpusViol, knownHit)
	fmt.Printf("%s %s: runs=%d nontrivial=%d distinct=%d violations=%d known_hits=%d wall=%.1fs\n", spec.Property, spec.Tier, res.Stats.Runs, res.Stats.Nontrivial, len(res.ShapeSet), len(newViol)+corpusViol, len(knownHit), time.Since(start).Seconds())
	return exit
}

func sigOf(r RunReport) string {
	if r.Violation == nil {
		return "no violation"
	}
	return r.Violation.Signature
}

func indent(s, p string) string {
	return p + strings.ReplaceAll(strings.TrimRight(s, "\n"), "\n", "\n"+p)
}

func writeReplay(spec *CheckSpec, f Found, rep RunReport, seed uint64) string {
	dir := filepath.Join(spec.OutDir, "out", "replays")
	os.MkdirAll(dir, 0o755)
	v := rep.Violation
	rf := ReplayFile{Property: spec.Property, Rule: v.Rule, Signature: v.Signature, Message: v.Message, Engine: f.Batch.Engine, Mode: f.Batch.Mode,
		Variant: f.Batch.Variant, DiffBase: f.Batch.DiffBase, Env: f.Batch.Env, Seed: seed, Run: rep.Idx, Gen: rep.Gen, Sch: rep.Sch, Rendered: rep.Sample, LogHash: rep.LogHash}
	if rf.Gen == nil {
		rf.Gen = SearchTape(seed, f.Batch.Engine+"/"+f.Batch.Mode+"/gen", rep.Idx).vals
		rf.Sch = SearchTape(seed, f.Batch.Engine+"/"+f.Batch.Mode+"/sch", rep.Idx).vals
	}
	name := fmt.Sprintf("%s-%s-%016x.json", spec.Property, sanitize(v.Rule), HashString(v.Signature))
	path := filepath.Join(dir, name)
	js, _ := json.MarshalIndent(rf, "", " ")
	os.WriteFile(path, js, 0o644)
	return path
}

func sanitize(s string) string {
	return regexp.MustCompile(`[^A-Za-z0-9.]+`).ReplaceAllString(s, "_")
}

// ReplayFromFile re-executes a replay file; returns exit code 1 if it still
// violates with the same signature, 0 if it passes, 2 on trouble.
func ReplayFromFile(binDir, path, tier string) int {
	b, err := os.ReadFile(path)
	if err != nil {
		fmt.Fprintln(os.Stderr, err)
		return 2
	}
	var rf ReplayFile
	if err := json.Unmarshal(b, &rf); err != nil {
		fmt.Fprintln(os.Stderr, err)
		return 2
	}
	batch := Batch{Engine: rf.Engine, Mode: rf.Mode, Variant: rf.Variant, Env: rf.Env, DiffBase: rf.DiffBase}
	rep := Replay(binDir, batch, tier, rf.Gen, rf.Sch, 120*time.Second)
	if rep.Sample != "" {
		fmt.Printf("case:\n%s\n", indent(rep.Sample, "  "))
	}
	if rep.Violation == nil {
		fmt.Printf("replay of %s: no violation (expected %s)\n", path, rf.Signature)
		return 0
	}
	fmt.Printf("replay of %s: %s\n  %s\n", path, rep.Violation.Signature, rep.Violation.Message)
	if rep.Violation.Signature == rf.Signature {
		if rf.LogHash != 0 && rep.LogHash != 0 && rep.LogHash != rf.LogHash {
			fmt.Printf("  (event-log hash differs from the recorded one: %x vs %x)\n", rep.LogHash, rf.LogHash)
		}
		fmt.Printf("VIOLATION property=%s replay=%s\n", rf.Property, path)
		return 1
	}
	fmt.Printf("  (different signature than recorded: %s)\nVIOLATION property=%s replay=%s\n", rf.Signature, rf.Property, path)
	return 1
}

// replayCorpus replays committed files: corpus/<ID>/*.json must pass (no
// violation) unless they belong to an open known finding, in which case they
// must still fail with that signature.
func replayCorpus(spec *CheckSpec, known []KnownFinding) int {
	bad := 0
	for _, sub := range []string{"corpus", "findings"} {
		files, _ := filepath.Glob(filepath.Join(spec.OutDir, sub, spec.Property+"-*.json"))
		more, _ := filepath.Glob(filepath.Join(spec.OutDir, sub, spec.Property, "*.json"))
		files = append(files, more...)
		sort.Strings(files)
		for _, f := range files {
			b, err := os.ReadFile(f)
			if err != nil {
				continue
			}
			var rf ReplayFile
			if json.Unmarshal(b, &rf) != nil || rf.Engine == "" {
				continue
			}
			batch := Batch{Engine: rf.Engine, Mode: rf.Mode, Variant: rf.Variant, Env: rf.Env, DiffBase: rf.DiffBase}
			if _, err := os.Stat(binPath(spec.BinDir, rf.Variant)); err != nil {
				continue // variant not built in this tier
			}
			rep := Replay(spec.BinDir, batch, spec.Tier, rf.Gen, rf.Sch, 120*time.Second)
			open := matchKnown(known, spec.Property, rf.Signature)
			switch {
			case rep.Violation == nil && open != nil:
				fmt.Printf("NOTE: open finding %q no longer reproduces from %s\n", open.Signature, f)
			case rep.Violation == nil:
			case matchKnown(known, spec.Property, rep.Violation.Signature) != nil:
				// still failing as recorded
			default:
				fmt.Printf("corpus replay %s: %s\n  %s\n", f, rep.Violation.Signature, rep.Violation.Message)
				fmt.Printf("VIOLATION property=%s replay=%s\n", spec.Property, f)
				bad++
			}
		}
	}
	return bad
}

func writeEvidence(spec *CheckSpec, res *CheckResult, wall time.Duration, nviol int, knownHit map[string]int) {
	dir := filepath.Join(spec.OutDir, "evidence")
	os.MkdirAll(dir, 0o755)
	var samples []interface{}
	for _, s := range res.Stats.Samples {
		samples = append(samples, s)
	}
	if len(samples) == 0 {
		samples = append(samples, "(no sample rendered)")
	}
	evals := res.Stats.Runs
	perHour := int64(0)
	if wall.Seconds() > 0 {
		perHour = int64(float64(evals) / wall.Seconds() * 3600)
	}
	faults := map[string]int64{}
	probes := map[string]int64{}
	other := map[string]int64{}
	for k, v := range res.Stats.Counts {
		switch {
		case strings.HasPrefix(k, "fault."):
			faults[strings.TrimPrefix(k, "fault.")] = v
		case strings.HasPrefix(k, "probe."):
			probes[strings.TrimPrefix(k, "probe.")] = v
		default:
			other[k] = v
		}
	}
	kh := map[string]int{}
	for k, v := range knownHit {
		kh[k] = v
	}
	cov := map[string]interface{}{
		"evaluations":          evals,
		"distinct_nontrivial":  len(res.ShapeSet),
		"rule":                 spec.Rule,
		"samples":              samples,
		"nontrivial_runs":      res.Stats.Nontrivial,
		"runs_per_hour":        perHour,
		"seeds_per_hour":       perHour,
		"simulated_ms":         res.Stats.SimMs,
		"simulated_cpu_ticks":  res.Stats.Ticks,
		"faults_fired":         faults,
		"rare_branch_probes":   probes,
		"counters":             other,
		"batches":              res.PerBatch,
		"real_components":      spec.Real,
		"simulated_components": spec.Stub,
		"known_findings_hit":   kh,
		"unconfirmed_ignored":  res.HangsUnc,
		"exhaustive":           false,
	}
	ev := map[string]interface{}{
		"property_id": spec.Property,
		"tier":        spec.Tier,
		"seed":        spec.Seed,
		"level":       spec.Level,
		"coverage":    cov,
		"assumptions": spec.Assume,
		"wall_s":      wall.Seconds(),
		"violations":  nviol,
	}
	js, _ := json.MarshalIndent(ev, "", " ")
	os.WriteFile(filepath.Join(dir, spec.Property+".json"), js, 0o644)
}

// crossBuild compares, for differential batches, the per-run log hashes reported
// by each variant with those of the base variant.
// modeTag names the mode in a cross-build signature when it is not one of the two general ones, so
// that a finding known in a special-purpose mode never hides a difference met anywhere else.
func modeTag(mode string) string {
	if mode == "conf" || mode == "nort" || mode == "" {
		return ""
	}
	return ":" + mode
}

func crossBuild(spec *CheckSpec, res *CheckResult) {
	for _, b := range spec.Batches {
		if b.DiffBase == "" {
			continue
		}
		mine := res.Hashes[b.Mode+"|"+b.Variant]
		base := res.Hashes[b.Mode+"|"+baseVariant(b.DiffBase)]
		var idxs []uint64
		for idx, h := range mine {
			if bh, ok := base[idx]; ok && bh != h {
				idxs = append(idxs, idx)
			}
		}
		sort.Slice(idxs, func(i, j int) bool { return idxs[i] < idxs[j] })
		compared := 0
		for idx := range mine {
			if _, ok := base[idx]; ok {
				compared++
			}
		}
		if res.Stats.Counts == nil {
			res.Stats.Counts = map[string]int64{}
		}
		v := b.Variant
		if v == "" {
			v = "std"
		}
		res.Stats.Counts["runs compared "+v+" vs "+b.DiffBase+" ("+b.Mode+")"] += int64(compared)
		for i, idx := range idxs {
			if i >= 20 {
				break
			}
			res.Found = append(res.Found, Found{Batch: b, Crash: true, Report: RunReport{Idx: idx, Violation: &Violation{Property: spec.Property, Rule: "XBUILD",
				Signature: "XBUILD:log-differs:" + v + "-vs-" + b.DiffBase + modeTag(b.Mode), Message: fmt.Sprintf("run %d: event-log hash of build %q differs from build %q", idx, v, b.DiffBase)}}})
		}
	}
}

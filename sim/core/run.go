package core

import (
	"bufio"
	"encoding/json"
	"fmt"
	"hash/fnv"
	"os"
	"sort"
	"strings"
	"syscall"
	"time"
)

// A Violation is what an oracle reports.
type Violation struct {
	Property  string `json:"property"`
	Rule      string `json:"rule"`
	Signature string `json:"signature"`
	Message   string `json:"message"`
}

// RunCtx is handed to an engine for one simulated run.
type RunCtx struct {
	Gen  *Tape // program shape, arguments, fault plan
	Sch  *Tape // scheduler, collector, clock
	Mode string
	Tier string

	viol    *Violation
	Counts  map[string]int64 // fault kinds fired, rare-branch probes, sizes (summed by the worker)
	Sample  string           // rendered case (kept for a few runs)
	Shape   uint64           // hash identifying the distinct case (program shape x fault class x schedule)
	Trivial bool             // true if no fault fired and no non-default decision was taken
	LogHash uint64           // hash of the canonical event log, for replay confirmation
	SimMs   uint64           // simulated milliseconds covered
	Log     []string         // optional: canonical event log (returned in replay mode, used by cross-build comparison)
	HashOut bool             // ask the worker to report the log hash of every run (cross-build comparison)
	Ticks   uint64           // simulated CPU ticks covered
}

// Fail records the first violation of the run.
func (c *RunCtx) Fail(prop, rule, sig, format string, args ...interface{}) {
	if c.viol != nil {
		return
	}
	c.viol = &Violation{Property: prop, Rule: rule, Signature: rule + ":" + sig, Message: fmt.Sprintf(format, args...)}
}

// Failed tells whether a violation has been recorded.
func (c *RunCtx) Failed() bool { return c.viol != nil }

// Count adds to a named counter.
func (c *RunCtx) Count(name string, n int64) {
	if n != 0 {
		c.Counts[name] += n
	}
}

// An Engine executes one run described by the tapes in ctx.
type Engine struct {
	Name string
	Run  func(ctx *RunCtx)
}

var engines = map[string]*Engine{}

// Register makes an engine available to workers.
func Register(e *Engine) { engines[e.Name] = e }

// Command is a request to a worker (one JSON object per line on stdin).
type Command struct {
	Op     string   `json:"op"` // search | replay | quit
	Engine string   `json:"engine"`
	Mode   string   `json:"mode"`
	Tier   string   `json:"tier"`
	Seed   uint64   `json:"seed"`
	From   uint64   `json:"from"`
	To     uint64   `json:"to"`
	Stride uint64   `json:"stride"`
	Millis int64    `json:"millis"` // wall budget for search; 0 = none
	Gen    []uint32 `json:"gen"`
	Sch    []uint32 `json:"sch"`
}

// RunReport is the outcome of one run.
type RunReport struct {
	Idx       uint64     `json:"idx"`
	Violation *Violation `json:"violation,omitempty"`
	Gen       []uint32   `json:"gen,omitempty"`
	Sch       []uint32   `json:"sch,omitempty"`
	Sample    string     `json:"sample,omitempty"`
	LogHash   uint64     `json:"log_hash"`
	Log       []string   `json:"log,omitempty"`
}

// Stats is what a worker reports at the end of a search command.
type Stats struct {
	Runs       int64            `json:"runs"`
	Nontrivial int64            `json:"nontrivial"`
	Shapes     []uint64         `json:"shapes"` // distinct non-trivial shape hashes (capped)
	ShapesOver bool             `json:"shapes_over"`
	Counts     map[string]int64 `json:"counts"`
	Samples    []string         `json:"samples"`
	SimMs      uint64           `json:"sim_ms"`
	Ticks      uint64           `json:"ticks"`
	WallMs     int64            `json:"wall_ms"`
	Last       uint64           `json:"last"`
}

const maxShapes = 200000

// selfTestHashes makes every run report its log hash, shape hash and verdict (determinism self-test).
var selfTestHashes = os.Getenv("VSIM_SELFTEST") != ""

func execRun(e *Engine, cmd *Command, gen, sch *Tape, idx uint64) (*RunCtx, *RunReport) {
	ctx := &RunCtx{Gen: gen, Sch: sch, Mode: cmd.Mode, Tier: cmd.Tier, Counts: map[string]int64{}, Trivial: true}
	e.Run(ctx)
	rep := &RunReport{Idx: idx, Violation: ctx.viol, LogHash: ctx.LogHash}
	if ctx.viol != nil {
		rep.Gen = gen.Used()
		rep.Sch = sch.Used()
		rep.Sample = ctx.Sample
	}
	return ctx, rep
}

// WorkerMain is the command loop of a worker process.
func WorkerMain() {
	// The protocol keeps private duplicates of the real stdin/stdout; file
	// descriptors 0 and 1 themselves are pointed at /dev/null so that nothing the
	// Lua code does (io.read, io.write, io.stdout, print) can reach the protocol.
	pin, pout := os.Stdin, os.Stdout
	if fd, err := syscall.Dup(0); err == nil {
		pin = os.NewFile(uintptr(fd), "protocol-in")
	}
	if fd, err := syscall.Dup(1); err == nil {
		pout = os.NewFile(uintptr(fd), "protocol-out")
	}
	if f, err := os.Open(os.DevNull); err == nil {
		syscall.Dup2(int(f.Fd()), 0)
	}
	if f, err := os.OpenFile(os.DevNull, os.O_WRONLY, 0); err == nil {
		syscall.Dup2(int(f.Fd()), 1)
	}
	in := bufio.NewReaderSize(pin, 1<<20)
	out := bufio.NewWriterSize(pout, 1<<16)
	defer out.Flush()
	emit := func(tag string, v interface{}) {
		b, _ := json.Marshal(v)
		out.WriteString(tag)
		out.WriteByte(' ')
		out.Write(b)
		out.WriteByte('\n')
		out.Flush()
	}
	for {
		line, err := in.ReadBytes('\n')
		if len(line) == 0 && err != nil {
			return
		}
		var cmd Command
		if e := json.Unmarshal(line, &cmd); e != nil {
			fmt.Fprintf(os.Stderr, "vsim worker: bad command: %v\n", e)
			os.Exit(2)
		}
		eng := engines[cmd.Engine]
		if eng == nil && cmd.Op != "quit" {
			fmt.Fprintf(os.Stderr, "vsim worker: unknown engine %q\n", cmd.Engine)
			os.Exit(2)
		}
		switch cmd.Op {
		case "quit":
			return
		case "replay":
			out.WriteString("R 0\n")
			out.Flush()
			ctx, rep := execRun(eng, &cmd, ReplayTape(cmd.Gen), ReplayTape(cmd.Sch), 0)
			rep.Sample = ctx.Sample
			rep.Log = ctx.Log
			rep.Gen, rep.Sch = cmd.Gen, cmd.Sch
			emit("P", rep)
		case "search":
			st := &Stats{Counts: map[string]int64{}}
			shapes := map[uint64]struct{}{}
			start := time.Now()
			stride := cmd.Stride
			if stride == 0 {
				stride = 1
			}
			for idx := cmd.From; idx < cmd.To; idx += stride {
				if cmd.Millis > 0 && time.Since(start).Milliseconds() > cmd.Millis {
					break
				}
				fmt.Fprintf(out, "R %d\n", idx)
				out.Flush()
				gen := SearchTape(cmd.Seed, cmd.Engine+"/"+cmd.Mode+"/gen", idx)
				sch := SearchTape(cmd.Seed, cmd.Engine+"/"+cmd.Mode+"/sch", idx)
				ctx, rep := execRun(eng, &cmd, gen, sch, idx)
				st.Runs++
				st.Last = idx
				st.SimMs += ctx.SimMs
				st.Ticks += ctx.Ticks
				for k, v := range ctx.Counts {
					st.Counts[k] += v
				}
				if !ctx.Trivial {
					st.Nontrivial++
					if len(shapes) < maxShapes {
						shapes[ctx.Shape] = struct{}{}
					} else {
						st.ShapesOver = true
					}
				}
				if len(st.Samples) < 3 && ctx.Sample != "" && (!ctx.Trivial || st.Runs > 20) {
					st.Samples = append(st.Samples, ctx.Sample)
				}
				if rep.Violation != nil {
					emit("V", rep)
				}
				if ctx.HashOut {
					fmt.Fprintf(out, "H %d %d\n", idx, ctx.LogHash)
				} else if selfTestHashes {
					v := "ok"
					if rep.Violation != nil {
						v = rep.Violation.Signature
					}
					fmt.Fprintf(out, "H %d %d %d %s\n", idx, ctx.LogHash, ctx.Shape, v)
				}
			}
			for h := range shapes {
				st.Shapes = append(st.Shapes, h)
			}
			sort.Slice(st.Shapes, func(i, j int) bool { return st.Shapes[i] < st.Shapes[j] })
			st.WallMs = time.Since(start).Milliseconds()
			emit("S", st)
		}
	}
}

// HashStrings hashes a list of strings (event logs).
func HashStrings(ss []string) uint64 {
	h := fnv.New64a()
	for _, s := range ss {
		h.Write([]byte(s))
		h.Write([]byte{0})
	}
	return h.Sum64()
}

// HashString hashes one string.
func HashString(s string) uint64 {
	h := fnv.New64a()
	h.Write([]byte(s))
	return h.Sum64()
}

// Scrub removes addresses from a message (0xc000123456 -> 0xADDR).
func Scrub(s string) string {
	var b strings.Builder
	for i := 0; i < len(s); i++ {
		if s[i] == '0' && i+1 < len(s) && s[i+1] == 'x' {
			j := i + 2
			for j < len(s) && (s[j] >= '0' && s[j] <= '9' || s[j] >= 'a' && s[j] <= 'f') {
				j++
			}
			if j-i >= 8 {
				b.WriteString("0xADDR")
				i = j - 1
				continue
			}
		}
		b.WriteByte(s[i])
	}
	return b.String()
}

//go:build verif

package core

import (
	"fmt"
	"os"
	"runtime"
	"unsafe"

	rt "github.com/arnodel/golua/runtime"
)

// Controlled scheduler (DESIGN §2.2).
//
// Every goroutine golua creates (one per coroutine) plus the goroutines the
// harness creates with Go() is a task.  At most one task holds the baton; a
// task gives it up only at a hook (verifSched events of runtime/thread.go,
// Yield() from host callbacks).  Which enabled task gets it next is decided by
// the tape.  Parking is done by spinning on a plain word inside norace
// functions, so the race detector sees no happens-before edge created by the
// scheduler: races in golua remain visible although execution is serialised.
//
// The core must not use maps, append or anything else the runtime instruments.

const (
	maxTasks = 3000
	maxObjs  = 3000
)

const (
	tsFree       int32 = iota
	tsRunnable         // holds the baton or is parked at a hook, enabled
	tsNotStarted       // goroutine spawned, has not reached its Start hook; enabled
	tsWantLock         // parked before Lock(obj); enabled iff the mutex is free
	tsWantSend         // parked before a send on obj; enabled iff a receiver is in the real receive (or closed)
	tsInRecv           // released into the real receive on obj; not schedulable until AfterRecv
	tsExited
)

type task struct {
	gid    int64
	state  int32
	obj    int32 // index in objs of the mutex/channel concerned
	flag   uint32
	thread unsafe.Pointer // *rt.Thread for coroutine tasks
}

type obj struct {
	ptr          unsafe.Pointer // the *rt.Thread owning the mutex and the channel
	owner        int32          // task holding mux, -1 if free
	receiver     int32          // task in the real receive on resumeCh, -1 if none
	lastReceiver int32          // last task that announced a receive (stable until its AfterRecv)
	matched      bool           // a sender has been released against receiver
	closed       bool
}

// Decision is one recorded scheduling decision.
type Decision struct {
	Step    int32
	Enabled int16
	Chosen  int16
}

// Sched is the controlled scheduler.
type Sched struct {
	tasks  [maxTasks]task
	ntasks int
	objs   [maxObjs]obj
	nobjs  int
	cur    int32
	tape   *Tape

	Steps        int
	MaxSteps     int
	Switches     int // decisions with more than one enabled task
	NonDefault   int // decisions where the chosen task was not the first candidate
	decisions    [512]Decision
	ndecisions   int
	SchedHash    uint64
	TailHeadRace int // times a sender tail and a receiver head were both enabled

	deadlock  bool
	DeadlockS string
	abort     string
	active    bool
	goDone    chan struct{}
	goCount   int
	OnAbort   func(kind, msg string) // called (once) on deadlock / step overflow; must not return normally if the run cannot continue
}

var theSched *Sched

// realStderr is the process's standard error as it was at start-up (engines may
// point os.Stderr elsewhere to capture what golua writes to it).
var realStderr = os.Stderr

var debugSched = os.Getenv("VSIM_DEBUG_SCHED") != ""

// NewSched returns a scheduler drawing from tape.
func NewSched(tape *Tape, maxSteps int) *Sched {
	var s *Sched
	if n := len(schedPool); n > 0 {
		s = schedPool[n-1]
		schedPool = schedPool[:n-1]
	} else {
		s = &Sched{}
	}
	s.tape = tape
	s.MaxSteps = maxSteps
	return s
}

var schedPool []*Sched

// Release recycles a scheduler after End (its counters must have been read).
func (s *Sched) Release() {
	for i := 0; i < s.ntasks; i++ {
		s.tasks[i] = task{}
	}
	for i := 0; i < s.nobjs; i++ {
		s.objs[i] = obj{}
	}
	s.ntasks, s.nobjs, s.cur, s.tape = 0, 0, 0, nil
	s.Steps, s.MaxSteps, s.Switches, s.NonDefault, s.ndecisions, s.SchedHash, s.TailHeadRace = 0, 0, 0, 0, 0, 0, 0
	s.deadlock, s.DeadlockS, s.abort, s.active, s.OnAbort = false, "", "", false, nil
	s.goCount = 0
	if len(schedPool) < 4 {
		schedPool = append(schedPool, s)
	}
}

// Begin installs the scheduler; the calling goroutine becomes task 0.
func (s *Sched) Begin() {
	if getSched() != nil {
		panic("vsim: two schedulers active")
	}
	s.tasks[0].state = tsRunnable
	s.tasks[0].flag = 0
	s.ntasks = 1
	s.cur = 0
	s.active = true
	s.SchedHash = 1469598103934665603
	setSched(s)
	if !hookInstalled {
		// installed once per process and never removed: goroutines finishing their
		// last hook call may still read the variable after the run has ended.
		hookInstalled = true
		rt.VerifSchedHook = schedHook
	}
}

var hookInstalled bool

//go:norace
//go:noinline
func setSched(s *Sched) { theSched = s }

//go:norace
//go:noinline
func getSched() *Sched { return theSched }

// Drain lets the remaining enabled tasks (sender tails) run to their end and
// returns a description of leaked tasks ("" if none).  Must be called by task 0.
func (s *Sched) Drain() string { return s.drain() }

// Suspended returns the threads of the tasks parked as suspended coroutines.
// Only meaningful after Drain.
func (s *Sched) Suspended() []*rt.Thread {
	var out []*rt.Thread
	for i := 1; i < s.ntasks; i++ {
		t := &s.tasks[i]
		if t.state == tsInRecv && t.thread != nil && s.objs[t.obj].ptr == t.thread {
			th := (*rt.Thread)(t.thread)
			if th.Status() == rt.ThreadSuspended {
				out = append(out, th)
			}
		}
	}
	return out
}

// Reap closes every coroutine left suspended, so that its goroutine ends and
// the runtime can be collected (a legal host action: Thread.Close on a
// suspended coroutine).  Call after the run's log has been taken.
func (s *Sched) Reap(main *rt.Thread) {
	for _, th := range s.Suspended() {
		func() {
			defer func() { recover() }()
			th.Close(main)
		}()
	}
}

// End drains, uninstalls the scheduler and returns the leak description.
func (s *Sched) End() string {
	leak := s.drain()
	for ; s.goCount > 0; s.goCount-- {
		select {
		case <-s.goDone:
		default:
			// a task that never finished (reported as a leak above)
		}
	}
	s.deactivate()
	setSched(nil)
	return leak
}

//go:norace
//go:noinline
func (s *Sched) deactivate() { s.active = false }

//go:norace
//go:noinline
func loadFlag(p *uint32) uint32 { return *p }

//go:norace
//go:noinline
func storeFlag(p *uint32, v uint32) { *p = v }

// wait parks task i until it is given the baton.
//
//go:norace
//go:noinline
func (s *Sched) wait(i int32) {
	t := &s.tasks[i]
	n := 0
	for loadFlag(&t.flag) == 0 {
		n++
		if n < 50 {
			continue
		}
		runtime.Gosched()
	}
	storeFlag(&t.flag, 0)
}

//go:norace
//go:noinline
func (s *Sched) objIndex(p unsafe.Pointer) int32 {
	for i := 0; i < s.nobjs; i++ {
		if s.objs[i].ptr == p {
			return int32(i)
		}
	}
	if s.nobjs >= maxObjs {
		s.fail("overflow", "too many threads in one run")
		return 0
	}
	i := s.nobjs
	s.objs[i].ptr = p
	s.objs[i].owner = -1
	s.objs[i].receiver = -1
	s.nobjs++
	return int32(i)
}

//go:norace
//go:noinline
func (s *Sched) findObj(p unsafe.Pointer) int32 {
	for i := 0; i < s.nobjs; i++ {
		if s.objs[i].ptr == p {
			return int32(i)
		}
	}
	return -1
}

//go:norace
//go:noinline
func (s *Sched) enabled(i int32) bool {
	t := &s.tasks[i]
	switch t.state {
	case tsRunnable, tsNotStarted:
		return true
	case tsWantLock:
		return s.objs[t.obj].owner < 0
	case tsWantSend:
		o := &s.objs[t.obj]
		return o.closed || (o.receiver >= 0 && !o.matched)
	}
	return false
}

// pick chooses the next task among the enabled ones; cur comes first when it
// is enabled (choice 0 = keep running).  exclude is a task never chosen (-1 for
// none).  Returns -1 if no task is enabled.
//
//go:norace
//go:noinline
func (s *Sched) pick(exclude int32) int32 {
	var cand [maxTasks]int32
	n := 0
	if s.cur != exclude && s.enabled(s.cur) {
		cand[n] = s.cur
		n++
	}
	for i := int32(0); i < int32(s.ntasks); i++ {
		if i == s.cur || i == exclude {
			continue
		}
		if s.enabled(i) {
			cand[n] = i
			n++
		}
	}
	if n == 0 {
		return -1
	}
	s.Steps++
	k := 0
	if n > 1 {
		k = s.tape.Choose(n)
		s.Switches++
		if k != 0 {
			s.NonDefault++
		}
		if s.ndecisions < len(s.decisions) {
			s.decisions[s.ndecisions] = Decision{int32(s.Steps), int16(n), int16(cand[k])}
			s.ndecisions++
		}
		s.SchedHash = (s.SchedHash ^ uint64(cand[k]+1)*31 ^ uint64(n)) * 1099511628211
	}
	return cand[k]
}

// grant applies the effect of letting task i proceed with its announced operation.
//
//go:norace
//go:noinline
func (s *Sched) grant(i int32) {
	t := &s.tasks[i]
	switch t.state {
	case tsWantLock:
		s.objs[t.obj].owner = i
	case tsWantSend:
		o := &s.objs[t.obj]
		if !o.closed {
			o.matched = true
		}
	}
	if t.state != tsNotStarted {
		t.state = tsRunnable
	}
}

// reschedule is a scheduling point for task me, whose state has been set by the
// caller.  If stay is false the caller does not wait for the baton again (it is
// going into a real receive or exiting).
//
//go:norace
//go:noinline
func (s *Sched) reschedule(me int32, stay bool) {
	if s.Steps > s.MaxSteps && s.MaxSteps > 0 {
		s.fail("overflow", "scheduler step budget exceeded")
	}
	next := s.pick(-1)
	if next < 0 {
		s.reportDeadlock(me)
		return
	}
	s.grant(next)
	if next == me {
		return
	}
	s.cur = next
	storeFlag(&s.tasks[next].flag, 1)
	if stay {
		s.wait(me)
	}
}

//go:norace
//go:noinline
func (s *Sched) fail(kind, msg string) {
	if s.abort == "" {
		s.abort = kind + ": " + msg
	}
	if s.OnAbort != nil {
		s.OnAbort(kind, msg)
	}
	fmt.Fprintf(realStderr, "vsim: scheduler abort: %s: %s\n", kind, msg)
	os.Exit(4)
}

//go:norace
//go:noinline
func (s *Sched) reportDeadlock(me int32) {
	s.deadlock = true
	s.DeadlockS = s.describe()
	s.fail("deadlock", s.DeadlockS)
}

// describe renders the wait-for graph.
//
//go:norace
func (s *Sched) describe() string {
	out := ""
	for i := 0; i < s.ntasks; i++ {
		t := &s.tasks[i]
		switch t.state {
		case tsWantLock:
			out += fmt.Sprintf("task%d waits for mutex of thread#%d held by task%d; ", i, t.obj, s.objs[t.obj].owner)
		case tsWantSend:
			out += fmt.Sprintf("task%d waits to send to thread#%d (no receiver); ", i, t.obj)
		case tsInRecv:
			out += fmt.Sprintf("task%d waits to receive on thread#%d; ", i, t.obj)
		case tsRunnable, tsNotStarted:
			out += fmt.Sprintf("task%d runnable; ", i)
		}
	}
	return out
}

// taskOfThread finds the task whose goroutine runs thread p.
//
//go:norace
//go:noinline
func (s *Sched) taskOfThread(p unsafe.Pointer) int32 {
	for i := 0; i < s.ntasks; i++ {
		if s.tasks[i].thread == p && s.tasks[i].state != tsFree {
			return int32(i)
		}
	}
	return -1
}

//go:norace
//go:noinline
func (s *Sched) newTask(thread unsafe.Pointer) int32 {
	if s.ntasks >= maxTasks {
		s.fail("overflow", "too many tasks in one run")
	}
	i := int32(s.ntasks)
	s.tasks[i] = task{state: tsNotStarted, thread: thread}
	s.ntasks++
	return i
}

//go:norace
//go:noinline
func schedHook(ev int, target *rt.Thread) {
	s := getSched()
	if s == nil || !s.active {
		return
	}
	p := unsafe.Pointer(target)
	if debugSched {
		g := goid()
		fmt.Fprintf(realStderr, "hook ev=%d target=%p cur=%d steps=%d g%d\n", ev, target, s.cur, s.Steps, g)
		if ev != rt.VerifEvStart && ev != rt.VerifEvAfterRecv {
			c := &s.tasks[s.cur]
			if c.gid == 0 {
				c.gid = g
			} else if c.gid != g {
				fmt.Fprintf(realStderr, "SCHED BUG: hook ev=%d called by goroutine %d but the baton holder task%d is goroutine %d\n", ev, g, s.cur, c.gid)
				os.Exit(5)
			}
		}
	}
	switch ev {
	case rt.VerifEvSpawn:
		s.newTask(p)
	case rt.VerifEvStart:
		me := s.taskOfThread(p)
		if me < 0 {
			// A goroutine spawned while another (or no) scheduler was active: it must
			// not take part in this run.  Its runtime is garbage by now; park it.
			select {}
		}
		s.wait(me)
		s.tasks[me].state = tsRunnable
	case rt.VerifEvExit:
		me := s.cur
		s.tasks[me].state = tsExited
		s.reschedule(me, false)
	case rt.VerifEvBeforeLock:
		me := s.cur
		s.tasks[me].state = tsWantLock
		s.tasks[me].obj = s.objIndex(p)
		s.reschedule(me, true)
	case rt.VerifEvAfterUnlock:
		me := s.cur
		o := &s.objs[s.objIndex(p)]
		o.owner = -1
		s.reschedule(me, true)
	case rt.VerifEvBeforeSend:
		me := s.cur
		s.tasks[me].state = tsWantSend
		s.tasks[me].obj = s.objIndex(p)
		s.reschedule(me, true)
	case rt.VerifEvAfterSend:
		me := s.cur
		o := &s.objs[s.objIndex(p)]
		if o.receiver >= 0 {
			// the receiver has got (or is getting) the value: it is enabled again and
			// will park at its AfterRecv hook until chosen.
			s.tasks[o.receiver].state = tsRunnable
			o.receiver = -1
			o.matched = false
			s.TailHeadRace++
		}
		s.reschedule(me, true)
	case rt.VerifEvBeforeRecv:
		me := s.cur
		oi := s.objIndex(p)
		o := &s.objs[oi]
		if o.closed {
			// receive on a closed channel returns at once
			s.reschedule(me, true)
			return
		}
		s.tasks[me].state = tsInRecv
		s.tasks[me].obj = oi
		o.receiver = me
		o.lastReceiver = me
		o.matched = false
		s.reschedule(me, false)
	case rt.VerifEvAfterRecv:
		// The caller is the task that was released into the real receive on this
		// channel.  It may get here before the sender has reached its AfterSend
		// hook, so it must only read fields that are stable during that window.
		oi := s.findObj(p)
		if oi < 0 || s.objs[oi].closed {
			return
		}
		s.wait(s.objs[oi].lastReceiver)
	case rt.VerifEvCloseChan:
		o := &s.objs[s.objIndex(p)]
		o.closed = true
	}
}

// Yield is a pure scheduling point; host callbacks call it.
//
//go:norace
//go:noinline
func (s *Sched) Yield() {
	if s == nil || !s.active {
		return
	}
	s.reschedule(s.cur, true)
}

// Cur returns the index of the task holding the baton.
//
//go:norace
func (s *Sched) Cur() int { return int(s.cur) }

// Go runs f as a new task on its own goroutine (used for independent runtimes
// and the collector).  Must be called by the task holding the baton.
//
//go:norace
//go:noinline
func (s *Sched) Go(f func()) {
	me := s.newTask(nil)
	if s.goDone == nil {
		s.goDone = make(chan struct{}, 64)
	}
	s.goCount++
	done := s.goDone
	go func() {
		s.wait(me)
		s.setRunnable(me)
		f()
		// a real (race-detector visible) join with the task that will call End: what
		// the task produced may be read after the run.  It orders nothing between tasks.
		done <- struct{}{}
		s.exit()
	}()
}

//go:norace
//go:noinline
func (s *Sched) setRunnable(i int32) { s.tasks[i].state = tsRunnable }

//go:norace
//go:noinline
func (s *Sched) exit() {
	me := s.cur
	s.tasks[me].state = tsExited
	s.reschedule(me, false)
}

// WaitOthers lets every other task run until none of them is enabled.
//
//go:norace
//go:noinline
func (s *Sched) drain() string {
	me := s.cur
	for {
		if s.Steps > s.MaxSteps && s.MaxSteps > 0 {
			s.fail("overflow", "scheduler step budget exceeded while draining")
		}
		next := s.pick(me)
		if next < 0 {
			break
		}
		s.grant(next)
		s.cur = next
		storeFlag(&s.tasks[next].flag, 1)
		s.wait(me)
	}
	// leak check: every other task has exited or is a suspended coroutine waiting
	// on its own channel.
	leak := ""
	for i := 1; i < s.ntasks; i++ {
		t := &s.tasks[i]
		switch t.state {
		case tsExited:
		case tsInRecv:
			th := (*rt.Thread)(t.thread)
			if th == nil || s.objs[t.obj].ptr != t.thread || th.Status() != rt.ThreadSuspended {
				leak += fmt.Sprintf("task%d blocked receiving on thread#%d (own thread status %v); ", i, t.obj, statusOf(th))
			}
		default:
			leak += fmt.Sprintf("task%d left in state %d; ", i, t.state)
		}
	}
	return leak
}

func statusOf(th *rt.Thread) string {
	if th == nil {
		return "n/a"
	}
	switch th.Status() {
	case rt.ThreadOK:
		return "running"
	case rt.ThreadSuspended:
		return "suspended"
	case rt.ThreadDead:
		return "dead"
	}
	return "?"
}

// Decisions returns the recorded scheduling decisions.
func (s *Sched) Decisions() []Decision {
	out := make([]Decision, s.ndecisions)
	copy(out, s.decisions[:s.ndecisions])
	return out
}

// Tasks returns the number of tasks created.
func (s *Sched) Tasks() int { return s.ntasks }

// SchedStats is a copy of the scheduler's counters.
type SchedStats struct {
	Steps, Switches, NonDefault, TailHeadRace, Tasks int
	SchedHash                                        uint64
}

// Stats returns the counters.
func (s *Sched) Stats() SchedStats {
	return SchedStats{s.Steps, s.Switches, s.NonDefault, s.TailHeadRace, s.ntasks, s.SchedHash}
}

func goid() int64 {
	var buf [64]byte
	n := runtime.Stack(buf[:], false)
	var id int64
	for _, c := range buf[len("goroutine "):n] {
		if c < '0' || c > '9' {
			break
		}
		id = id*10 + int64(c-'0')
	}
	return id
}

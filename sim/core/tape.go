// Package core is the deterministic simulator: tape, controlled scheduler,
// simulated clock and collector, event log, supervisor, minimiser, evidence.
package core

// TapeLen is the number of choices a run may draw; past the end every choice is 0.
const TapeLen = 4096

// A Tape is the single source of every choice made in a run: program shape,
// fault placement, schedule, clock.  Value 0 is always the simplest choice.
//
// It is touched by every simulated task without any synchronisation visible to
// the race detector, hence the norace functions and the absence of append/maps.
type Tape struct {
	vals []uint32
	pos  int
}

func splitmix(x *uint64) uint64 {
	*x += 0x9e3779b97f4a7c15
	z := *x
	z = (z ^ (z >> 30)) * 0xbf58476d1ce4e5b9
	z = (z ^ (z >> 27)) * 0x94d049bb133111eb
	return z ^ (z >> 31)
}

// SearchTape returns the tape of run idx under seed.
func SearchTape(seed uint64, engine string, idx uint64) *Tape {
	x := seed*0x2545F4914F6CDD1D + idx*0x9E3779B97F4A7C15 + 0x1234567
	for _, c := range []byte(engine) {
		x = x*1099511628211 + uint64(c)
	}
	splitmix(&x)
	t := &Tape{vals: make([]uint32, TapeLen)}
	for i := range t.vals {
		t.vals[i] = uint32(splitmix(&x) >> 32)
	}
	return t
}

// ReplayTape returns a tape that replays vals.
func ReplayTape(vals []uint32) *Tape {
	t := &Tape{vals: make([]uint32, len(vals))}
	copy(t.vals, vals)
	return t
}

// Choose returns a value in [0, n).
//
//go:norace
//go:noinline
func (t *Tape) Choose(n int) int {
	if n <= 1 {
		return 0
	}
	if t.pos >= len(t.vals) {
		t.pos++
		return 0
	}
	v := t.vals[t.pos]
	t.pos++
	return int(v % uint32(n))
}

// Chance is true with probability num/den; the zero tape value gives false.
func (t *Tape) Chance(num, den int) bool {
	return t.Choose(den) >= den-num
}

// Range returns a value in [lo, hi]; the zero tape value gives lo.
func (t *Tape) Range(lo, hi int) int {
	if hi <= lo {
		return lo
	}
	return lo + t.Choose(hi-lo+1)
}

// Weighted picks an index with the given weights; index 0 is the simplest.
func (t *Tape) Weighted(w ...int) int {
	tot := 0
	for _, x := range w {
		tot += x
	}
	k := t.Choose(tot)
	for i, x := range w {
		if k < x {
			return i
		}
		k -= x
	}
	return 0
}

// Used returns the prefix of the tape consumed so far (for replay files).
func (t *Tape) Used() []uint32 {
	n := t.pos
	if n > len(t.vals) {
		n = len(t.vals)
	}
	out := make([]uint32, n)
	copy(out, t.vals[:n])
	// trailing zeros are implied
	for len(out) > 0 && out[len(out)-1] == 0 {
		out = out[:len(out)-1]
	}
	return out
}

// Pos returns the number of choices drawn.
func (t *Tape) Pos() int { return t.pos }
